#!/bin/sh
# For every property: apply a seeded change that its check detects, run the check, keep the first replay file, then run `./check <id> --replay <file>` on the
# patched tree (must exit 1) and on the restored tree (must exit 0).  /repo is restored after every property.
cd /verif
for c in C01 C02 C03 C04 C05 C06 C07 C08 C09 C10 C11 C12 C13 C14 C15 C16 C17 C18; do
  # pick a seeded change detected by this check
  d=$(python3 - "$c" <<'PY'
import json,glob,sys
c=sys.argv[1]
for d in sorted(glob.glob('/verif/seeded/%s-*' % c)):
    m=json.load(open(d+'/meta.json'))
    if c in (m['confirmed'].get('detected_by') or []):
        print(d); break
PY
)
  git -C /repo apply $d/patch.diff || { echo "$c: cannot apply $d"; continue; }
  ./check $c > /tmp/rt_$c.log 2>&1; rc1=$?
  rf=$(grep -m1 '^VIOLATION' /tmp/rt_$c.log | sed 's/.*replay=//')
  cp "$rf" /tmp/rt_$c.json 2>/dev/null
  ./check $c --replay /tmp/rt_$c.json > /tmp/rt2_$c.log 2>&1; rc2=$?
  git -C /repo checkout -- . ; git -C /repo clean -fdq graphslam 2>/dev/null
  ./check $c --replay /tmp/rt_$c.json > /tmp/rt3_$c.log 2>&1; rc3=$?
  echo "$c: $(basename $d) patched run rc=$rc1, replay on patched tree rc=$rc2, replay on clean tree rc=$rc3  $(grep -m1 MACHINERY /tmp/rt2_$c.log /tmp/rt3_$c.log | cut -c1-160)"
done
