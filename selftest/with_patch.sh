#!/bin/sh
# usage: with_patch.sh <patch.diff> <check-id> [<check-id> ...]
# Applies a seeded change to /repo, runs the named checks (quick tier), and ALWAYS restores /repo afterwards.
p="$1"; shift
cd /verif
git -C /repo apply "$p" || { echo "patch does not apply: $p"; exit 3; }
trap 'git -C /repo checkout -- . ; git -C /repo clean -fdq graphslam 2>/dev/null' EXIT INT TERM
rc=0
for c in "$@"; do
  ./check "$c" > /tmp/with_patch_$c.log 2>&1; r=$?
  echo "== $c exit=$r  $(grep -c '^VIOLATION' /tmp/with_patch_$c.log) violation line(s)"
  grep -m2 -A1 '^VIOLATION' /tmp/with_patch_$c.log | cut -c1-400
  grep -m1 'MACHINERY' /tmp/with_patch_$c.log
  [ $r -ne 0 ] && rc=$r
done
exit $rc
