#!/bin/sh
# Re-validates the whole seeded/ corpus against the current checks in a scratch worktree of /repo (VERIF_REPO), so /repo itself is never
# touched: every change must be detected (exit 1) by at least one of the checks recorded in its meta.json.
# usage: selftest/run_all_seeded.sh [pattern]      e.g.  selftest/run_all_seeded.sh 'C0*'
cd "$(dirname "$0")/.."
VERIF=$(pwd)
pat="${1:-*}"
WT=$(mktemp -d /tmp/seedrun.XXXXXX)
git -C /repo worktree add -q --detach "$WT" HEAD || exit 3
trap 'git -C /repo worktree remove --force "$WT" 2>/dev/null; rm -rf "$WT"' EXIT INT TERM
miss=""
for d in seeded/$pat/; do
  id=$(basename "$d")
  checks=$(python3 -c "import json,sys; m=json.load(open('$d/meta.json')); print(' '.join(m['confirmed'].get('detected_by') or []))")
  [ -z "$checks" ] && { echo "$id: (not a valid seeded change any more) skipped"; continue; }
  git -C "$WT" checkout -q -- . ; git -C "$WT" clean -fdq
  if ! git -C "$WT" apply "$VERIF/$d/patch.diff" 2>/dev/null; then echo "$id: PATCH DOES NOT APPLY to /repo HEAD"; miss="$miss $id(apply)"; continue; fi
  hit=""
  for c in $checks; do
    VERIF_REPO="$WT" ./check $c > /tmp/seeded_run_$$.log 2>&1; rc=$?
    [ $rc -eq 1 ] && hit="$hit $c"
    [ $rc -eq 2 ] && hit="$hit $c(exit2)"
  done
  echo "$id: detected by:${hit:- NONE} (expected: $checks)"
  [ -z "$hit" ] && miss="$miss $id"
done
rm -f /tmp/seeded_run_$$.log
echo "MISSES:$miss"
