#!/bin/sh
# usage: confirm_seeded.sh <dir with patch.diff demo.py> ...   -- confirms in a scratch worktree (outside /repo and /verif):
#   clean tree: demo exits 0;  patched tree: demo exits non-zero AND the repository's own test suite passes entirely.
WT=$(mktemp -d /tmp/confirm.XXXXXX)
git -C /repo worktree add -q --detach "$WT" HEAD || exit 3
trap 'git -C /repo worktree remove --force "$WT" 2>/dev/null; rm -rf "$WT"' EXIT INT TERM
for d in "$@"; do
  cd "$WT" && git checkout -q -- . && git clean -fdq
  cp "$d/demo.py" "$WT/demo_seeded.py"
  /venv/bin/python demo_seeded.py >/dev/null 2>&1; clean=$?
  if ! git apply "$d/patch.diff"; then echo "$d: PATCH DOES NOT APPLY"; continue; fi
  /venv/bin/python demo_seeded.py >/dev/null 2>&1; patched=$?
  res=$(/venv/bin/python -m pytest -x -p no:cacheprovider -q --timeout=900 tests 2>&1 | tail -1)
  echo "$d: demo clean=$clean patched=$patched tests: $res"
done
