#!/bin/sh
# Offline setup: nothing is built or cached; only verify that the tools are present and that every module parses.
set -e
cd "$(dirname "$0")/.."
command -v java >/dev/null
test -f /opt/veriftools/tla/tla2tools.jar
/venv/bin/python -c "import numpy, scipy"
tmp=$(mktemp -d)
cp spec/*.tla "$tmp"/
cd "$tmp"
for f in *.tla; do
  case "$f" in MC_*|Trace_*) ;; esac
  java -Djava.io.tmpdir="$tmp" -cp /opt/veriftools/tla/tla2tools.jar:/opt/veriftools/tla/CommunityModules-deps.jar tla2sany.SANY "$f" > sany.out 2>&1 || { cat sany.out; echo "SANY failed on $f"; rm -rf "$tmp"; exit 1; }
  if grep -q -E "Semantic errors|Parse Error|Fatal error" sany.out; then cat sany.out; echo "SANY failed on $f"; rm -rf "$tmp"; exit 1; fi
done
cd /; rm -rf "$tmp"
echo "setup ok"
