#!/usr/bin/env python3
"""Regenerate MANIFEST.json from the table below (single source of truth for the interface)."""
import json
import os

ROOT = os.path.dirname(os.path.dirname(os.path.abspath(__file__)))
L1 = 'Universal quantification over real inputs is decided on rational lattice points only (DESIGN.md L1); numpy float64 and math.atan2 are trusted; TLC (32-bit exact integer arithmetic, overflow is detected and reported as machinery failure) is trusted.'
CHECKS = {
    'C01': dict(tech='TLA+ exact dual-number model of the edge errors evaluated by TLC on a rational lattice; each TLC state replayed into EdgeOdometry/EdgeLandmark.calc_jacobians (binding A), incl. in-place reuse histories',
                text='The specification defines each edge error from rigid-motion composition (Hamilton product / 2x2 rotation) over exact rationals and its Jacobian as the dual part under the boxplus perturbation, i.e. the derivative itself. TLC evaluates it on thousands of lattice cases (all Hurwitz quaternions incl. w<0, w=0, rational quaternions with denominators 3,5,7,101,401, Pythagorean angles either side of +-pi, rotated offsets, translations up to 1e4) and every state is replayed into the real edge objects and compared entry-wise at 1e-11 relative accuracy. Right level: the property is a polynomial identity, any realistic wrong term changes a coefficient and shows at almost every lattice point.',
                ref='4 C01', note=L1),
    'C02': dict(tech='TLA+ exact homogeneous/Hamilton model of edge errors and chi^2 (quadratic form in the SE(2) angle atom) evaluated by TLC; states replayed into calc_error/calc_chi2/Graph.calc_chi2 (binding A)',
                text='Errors and chi^2 are defined in TLA+ independently of the library formulas; TLC evaluates them exactly on lattice cases x an information catalogue with cross terms, ill-conditioned, PSD-singular and indefinite matrices and checks chi2>=0 for PSD information on the model; the code must reproduce e (always) and chi2 (where 32-bit headroom lets TLC evaluate it), and Graph.calc_chi2 must be the sum over edges irrespective of fixed flags and list order.',
                ref='4 C02', note=L1 + ' chi^2 is compared only on cases whose exact value fits TLC integers (count in evidence).'),
    'C09': dict(tech='TLA+ rigid-motion model (Hamilton product / rotation matrices) with the group laws model-checked by TLC; every evaluated state replayed into the pose operators (binding A)',
                text='TLC checks on the model, for every enumerated lattice triple, the homomorphism to homogeneous matrices, two-sided inverse and identity, associativity, the point action and the ominus definition, then the exact results of (+), (-), inverse, point action (PoseRn and ndarray operands), boxplus (also +=) and to_matrix are compared with the real operators as rigid motions (q ~ -q, angles mod 2pi). The oracle is thereby known to be a group and independent of the library expansions.',
                ref='4 C09', note=L1 + ' boxplus increments restricted to rotational parts with rational sqrt(1-|d|^2) (norm <= 1, incl. exactly 1 for dyadic increments).'),
    'C10': dict(tech='TLA+ dual-number derivative of each named pose operation along every tangent direction of the named operand, evaluated by TLC; compared with the 12 public Jacobian methods chained with the exact boxplus Jacobian (binding A)',
                text='For each of the 12 methods x 4 pose kinds the specification differentiates the named operation exactly (forward mode over rationals) w.r.t. the boxplus perturbation of the named operand; the code Jacobian (documented shape asserted) chained with the exact boxplus Jacobian must equal it, the *_compact variants must be the leading rows of the full ones, and results must not alias shared state.',
                ref='4 C10', note=L1 + ' The component of a 7-column Jacobian normal to the unit sphere is not constrained by the property and not compared.'),
    'C18': dict(tech='GraphSLAM!Construct (bind by id, typing rules of Kinds.tla) explored exhaustively by TLC over the full cross product; every reached state replayed as Graph([edge], vertices) (binding A)',
                text='The system specification states construction as: bind every edge position to the vertex with that id, accept iff all ids are known and the edge is well typed. TLC enumerates the complete cross product the property quantifies over (20 736 configurations quick, 97 920 thorough), checks on the model that the verdict is independent of list order and that accepted edges are bound by id, and each state is replayed against the real constructor: it must raise exactly when the specification rejects, and bind exactly as the specification binds.',
                ref='4 C18', note='Validation is an assert in the library: python -O is outside the property. Edges naming the same vertex twice are not generated. Custom edge classes are represented by their own is_valid verdict.'),
    'C17': dict(tech='verdict table EqModel.tla enumerated exhaustively by TLC (class x mutation x magnitude x tolerance x direction); every state replayed on real objects with x.equals(y) (binding A)',
                text='The specification fixes what equals must answer for a copy, for a single-component perturbation far below / far above the tolerance (band in between left open), and for every structural difference, independent of direction; TLC enumerates the complete table (about 9 000 comparison cases incl. all cross-type pairs within a category) and each case is executed on real poses, vertices, odometry / landmark / custom edges and graphs; an exception is a violation.',
                ref='4 C17', note='Pairs are drawn within one category (pose/pose, vertex/vertex, edge/edge, graph/graph). Perturbation exponents {-12,-9,-6,-3} below, {3,4,6} above, {-1,0,1} in the band. Two measurements of one custom class that differ only in float vs 1-element array are not required to compare unequal.'),
    'C12': dict(tech='PlusCal model of the optimize loop model-checked against a closed form (TLC: invariant, liveness, splitting theorem); recorded optimizer calls validated against GraphSLAM!OptCall by Trace_GraphSLAM (binding B)',
                text='OptControl.tla mirrors the loop label by label over an abstract chi^2 sequence; TLC proves for every stop function, start state and max_iter <= 5..6 that the report equals the closed form Outcome (first stopping iteration, converged, num_iterations, length and completeness of iteration_results, which chi^2 each entry holds, printed rows), that the loop terminates, and that every composition of a run into consecutive calls reaches the same state. Real optimizer calls (converging, diverging, NaN; tol literal or placed just above the k-th relative decrease so every stop position occurs; verbose on/off; random splits) are recorded along TLC-generated scenarios and each event is validated against Outcome with stop classes computed from independently observed chi^2 values; poses must be bitwise equal for verbose on/off and split runs.',
                ref='4 C12', note='The independent chi^2 sequence comes from calc_chi2() between single-iteration calls on a deep copy (L3: floats are abstracted to stop classes and equality booleans by the recorder; classes within 1e-9 relative of tol are ambiguous).'),
    'C15': dict(tech='frame conditions of every GraphSLAM action imposed on recorded executions: TLC -simulate generates call sequences, the real graph is stepped along them, Trace_GraphSLAM validates every event (binding B)',
                text='Every public call (15 kinds of query incl. numerical Jacobians, contributions, export, plot, pose operators, copies; SetFixed; optimize) is an action of GraphSLAM with an explicit frame condition. TLC-generated behaviours (<= 30 / 50 actions) are executed on real graphs of every kind incl. aliased pose objects; after EVERY call bitwise digests of all poses, measurements, information matrices, offsets, flags, ids and orders are logged and TLC checks the action predicate on (state, state\'), plus determinism of repeated queries while poses are unchanged.',
                ref='4 C15', note='Digests are SHA-1 of the float64 bytes. plot uses the Agg backend. Violations of the optimize frame that involve a NaN solve are reported under C06.'),
    'C03': dict(tech='TLA+ Assembly model: exact b = sum J^T W e and H = sum J^T W J by dual numbers, block layout by list order, reduced system for the fixed set, evaluated by TLC; one real optimizer iteration replayed and compared (binding A), incl. warm-up call histories',
                text='The specification assembles the normal equations of a lattice graph exactly (rationals; SE(2) angle atoms symbolic), placing blocks by list order and by the order in which an edge names its vertices, summing parallel edges, and deleting fixed vertices; TLC checks H symmetric on the model. The increment that optimize(tol=0,max_iter=1) applies to every vertex (recovered with the library ominus) must equal the exact Gauss-Newton step and fixed vertices must not move; initial_chi2 must equal the exact chi^2. Cases cover either naming order, parallel edges, mixed dimensionality, several fixed vertices, unary/binary/ternary custom edges, permuted lists, four id maps, and a history in which the same Graph object was optimised before with a smaller fixed set.',
                ref='4 C03', note=L1 + ' The reduced linear system is solved exactly with Python Fractions (TLC integers overflow beyond about 5 unknowns); one step from lattice states only (L2); custom edges with numerical Jacobians are held to 2e-5*sqrt(cond). Either sign convention of the SE(3) rotational error is accepted (raw or canonical), consistently.'),
    'C08': dict(tech='one exact TLA+ evaluation (Assembly, physical semantics: rotation = {q,-q}, angle mod 2pi, edges keyed by vertex id) per graph; every representation of it built in the code and compared with that single oracle (binding A)',
                text='For each lattice graph TLC evaluates chi^2 and the first Gauss-Newton step once; vertex/edge list permutations, id relabellings (negative, sparse, > 2^32), 2*pi*m shifts, sign patterns of vertex / measurement / offset quaternions (all patterns for small graphs in the thorough tier), an edge split into two halves and information scaled by 0.25/3/1000 are built as real graphs and must reproduce that chi^2 (scaled) and that step per vertex.',
                ref='4 C08', note=L1 + ' One step from lattice states (L2). Half-turn rotational errors and +-pi angular errors are excluded (sign undetermined).'),
    'C06': dict(tech='(A) TLA+ Assembly reduced system for every fixed subset vs one real step (binding A); (B) GraphSLAM!OptCall frame condition imposed on recorded optimizer runs of 1..20 iterations in every outcome class by Trace_GraphSLAM (binding B)',
                text='GraphSLAM!OptCall states: the flags after the call are the flags before plus (fix_first_pose and first vertex), and a vertex fixed after the call has the same pose token as before, in every outcome. Recorded calls on fixtures with fixed subsets (none, one, several, all, fixed landmarks, isolated fixed vertex) incl. converged, iteration-limit, diverging and singular (NaN) runs are validated event by event with bitwise pose digests. For the reduced-problem clause TLC assembles the reduced normal equations of lattice graphs for each fixed subset and the real step of the free vertices must equal its exact solution - also when a fixed vertex has no incident edge.',
                ref='4 C06', note='Digests are SHA-1 of float64 bytes; reduced system solved with Fractions; exact step from lattice states only (L2).'),
    'C04': dict(tech='TLA+ Assembly reduced normal equations at several initial guesses (TLC), exact optimum x0+dx and chi2* by Fractions (identical across guesses), compared with the result of optimize() (binding A)',
                text='For R^2/R^3 graphs every Jacobian is +-I, so the exact minimiser is x0 + dx with dx the exact solution of the reduced normal equations TLC assembles at the initial guess x0, and chi2* = chi2_0 + b.dx. The harness checks on the model outputs that x0+dx and chi2* are identical for three different initial guesses (incl. ~1e3 away) and that optimize() with default settings ends at that point and reports that chi^2, for trees, loops, multi-edges and point-to-point landmark edges with offsets, random fixed subsets, SPD information with cross terms and inconsistent measurements.',
                ref='4 C04', note='Exact Fraction solve of the reduced system; graphs up to 10 vertices (TLC cost), the converged flag is not part of the property.'),
    'C07': dict(tech='theorem T5 model-checked by TLC on every generated (graph, T) (errors/chi2 invariant, b and H equivariant under the block change of coordinates: identity on poses, R_T on points); code conformance at g and at T*g against that one exact step (binding A); two-run lock-step code-vs-code for k=1..5',
                text='TLC left-composes every vertex of a lattice graph with a lattice rigid motion T inside the specification and checks exactly that all edge errors and chi^2 forms are unchanged and that gradient and Hessian are those of the original graph up to the rotation of point-vertex coordinates; the real optimizer step at g and at T*g (vertices built from the exact transformed poses) must both equal the exact step. Beyond the first step, optimize(tol=0,max_iter=k), k=1..5, on g and T*g (generic float T, |t| up to 1e6, rotations near 180 degrees) must stay in lock-step.',
                ref='4 C07', note=L1 + ' Later iterates are compared code-vs-code (L2); T is applied to real graphs with the library (+) (decided by C09). Absolute (prior) custom edges are not frame-invariant and are excluded.'),
    'C13': dict(tech='G2O.tla: Export layout and Parse over number/id symbols, round-trip theorem T9 checked by TLC on every generated abstract graph; written file compared token by token (float(token) bitwise) and re-imported graph compared position by position (binding A)',
                text='The specification fixes the token layout per tag, the row-major upper triangle, the line order, and which positions the reader may re-wrap or re-normalise; TLC computes Export(g) and checks Parse(Export(g)) = g for each abstract graph projected from a random real graph (extreme magnitudes, -0.0, ids negative and > 2^40, w<0 quaternions, shuffled lists, offset parameters by id). The file written by the code must be Export(g) exactly, the re-imported graph must equal the original bitwise except at the marked positions (4 ulp), chi^2 must agree, 2..5 cycles, and inexpressible content must raise.',
                ref='4 C13', note='Offset parameters are attached through Graph._g2o_params (the only interface the library has). Landmark edges whose offset id is absent from the registry are outside the domain.'),
    'C14': dict(tech='G2O.tla: ParseLine dispatch (vertex, registered custom types, odometry, landmark, parameters, else warn) folded over abstract files; TLC evaluates Parse(file); rendered text files loaded by every entry point and compared object by object (binding A)',
                text='Abstract files mixing all tags, two registered custom edge types, duplicate parameter ids, blank / comment / junk / near-miss lines in any legal order are rendered with random exact spellings of every float64, extra and trailing spaces, LF or CRLF; the loaded graph must be Parse(file): objects in file order, numbers bitwise (wrap / normalisation only where the specification says), symmetric information expansion, offsets resolved through the registry, one warning per unrecognised non-blank line; Graph.from_g2o and the five deprecated loaders must agree.',
                ref='4 C14', note='Tabs as separators and inf/nan literals are outside the quantifier. For blank lines no warning is demanded (the code skips them silently; both readings of the property accept that).'),
    'C05': dict(tech='designed lattice optima: TLC (Assembly!GradOnly) certifies exactly that the proposed ground truth is a stationary point and what chi^2 is there; real optimizer runs from the calibrated neighbourhood are judged against that certified optimum (binding A), incl. histories with a released anchor',
                text='Ground-truth graphs over the closed lattice groups (chains, loop closures, landmarks with rotated offsets, SPD information with cross terms) with (a) exact measurements and (b) pairs of parallel edges whose noise cancels; only designs for which TLC evaluates the gradient at the ground truth to exactly zero are used, with the exact chi2* it reports. Runs start within 0.3 / 0.15 rad of the optimum, tol in {1e-10,1e-6,1e-3}, max_iter 50: the report must equal calc_chi2() before/after, chi^2 must not increase, the optimality gap to chi2* must be <= 10 tol chi2, and noise-free runs must reproduce the ground truth to 1e-6.',
                ref='4 C05', note='First-order optimality at a generic noisy optimum (not a lattice point) is not evaluated by the oracle (L2); designed optima stand in. No claim outside the calibrated neighbourhood; a run ending below chi2* is counted unjudged.'),
    'C11': dict(tech='Apalache: wrap lemma for all integers; TLC -simulate on PoseChain (closed lattice groups, exact for any length) replayed after every action on real poses and on a conjugated copy; monitors for angle range and unit norm; normalize() against the exact result',
                text='Apalache discharges range, congruence and idempotence of the angle wrap for every integer multiple of pi/180; the float function, the SE(2) constructor, inverse, composition, difference and update are compared with the lemma at and around every wrap boundary and at random angles up to 1e6 rad. TLC generates random chains of 400 (quick) / 10 000 (thorough) operations inside closed groups where every state is exact; the real poses must equal the exact state after every action, SE(2) angles stay in [-pi,pi], quaternion norms stay within 8 eps (n+1) also on a conjugated (rounding-exercising) copy and over 1..50 optimizer iterations; normalize() must give the exact unit quaternion with w >= 0.',
                ref='4 C11', note='The rounding-drift bound on |q| is a monitor on observed executions along TLC-generated operation sequences (L3).'),
    'C16': dict(tech='TLA+ dual-number derivatives (exact sqrt) of a family of custom error functions evaluated by TLC; BaseEdge numerical Jacobians compared with them (binding A); optimisation against analytic twins',
                text='For unary prior, relative-pose, range and 3-vertex midpoint edges over all pose kinds the specification differentiates the error exactly; BaseEdge.calc_jacobians() (forward difference 1e-6 through boxplus) must agree within 2e-5*(1+scale) for translations up to 4e3 and leave every pose bitwise restored. Graphs whose odometry edges are replaced by numerically differentiated twins must reach the same optimum.',
                ref='4 C16', note=L1 + ' SE(2) errors within 1e-3 of +-pi are excluded (the property excludes the wrap set). The same-optimum clause is decided on near-consistent fixtures.'),
}
NA_REASON = 'check not built yet in this round (planned, see DESIGN.md section 4)'


def main():
    props = [json.loads(l) for l in open(os.path.join(ROOT, 'properties.jsonl'))]
    checks, na = [], []
    for p in props:
        pid = p['id']
        if pid in CHECKS:
            c = CHECKS[pid]
            checks.append({
                'property_id': pid,
                'quick_cmd': './check %s --tier quick' % pid,
                'thorough_cmd': './check %s --tier thorough' % pid,
                'evidence_file': '/verif/evidence/%s.json' % pid,
                'replay_cmd_template': './check %s --replay {path}' % pid,
                'engine': 'tlc-binding',
                'level_claimed': {'category': 'model_checking', 'text': c['text'], 'design_ref': c['ref']},
                'level_note': c['note'],
                'technique': c['tech'],
            })
        else:
            na.append({'property_id': pid, 'reason': NA_REASON})
    m = {
        'version': 1,
        'setup_cmd': 'sh tools/setup.sh',
        'hooks': {
            'guard': 'GRAPHSLAM_VERIF',
            'enable': 'no source hooks: the library is sequential and the public API exposes the abstract state (DESIGN.md 3.6); checks import /repo\'s working tree via PYTHONPATH=/repo',
            'baseline_off_cmd': 'cd /repo && /venv/bin/python -m pytest -ra -q -p no:cacheprovider --timeout=900 --continue-on-collection-errors',
            'source_commits': [],
            'add_only': True,
        },
        'engines': [{'name': 'tlc-binding', 'path': '/verif/check', 'serves_properties': [c['property_id'] for c in checks],
                     'kind_free_text': 'TLA+ specification (spec/*.tla) model-checked / evaluated by TLC; specification states and behaviours replayed into the real objects, recorded executions validated against the specification'}],
        'checks': checks,
        'not_applicable': na,
        'notes': 'exit 2 = machinery failure (TLC overflow/timeout/parse), never a verdict. known_findings.json lists genuine defects (fixed or open).',
    }
    with open(os.path.join(ROOT, 'MANIFEST.json'), 'w') as f:
        json.dump(m, f, indent=1)
    print('checks: %d, not_applicable: %d' % (len(checks), len(na)))


if __name__ == '__main__':
    main()
