#!/usr/bin/env python3
"""Write the prompts for a round of seeded changes (one fresh sub-agent per property; the sub-agent sees the property's text, its own
scratch worktree and the summaries of the changes of earlier rounds -- nothing else from /verif).

usage: tools/gen_seed_prompts.py <round> <prompt dir> <worktree root> <output root>
"""
import glob
import json
import os
import sys

rnd, pdir, wroot, oroot = int(sys.argv[1]), sys.argv[2], sys.argv[3], sys.argv[4]
here = os.path.dirname(os.path.dirname(os.path.abspath(__file__)))
props = [json.loads(l) for l in open(os.path.join(here, 'properties.jsonl'))]

IDEAS = {
    5: ("rarely used API surface (graphslam/load.py loaders, Graph.plot / Vertex.plot / edge plot, G2O parameter classes, BasePose helpers, "
        "util functions) and what state it leaves behind; behaviour only visible in graphs that came FROM a .g2o file or AFTER an export + "
        "re-import in the middle of a session; Python object protocol (copy.deepcopy / copy.copy / pickle of graphs, edges, poses; __eq__, "
        "__hash__, __repr__, __array_finalize__, __array_ufunc__ of the ndarray pose subclasses; slicing a pose; np.stack of poses); dict / set "
        "iteration order and key normalisation; behaviour that depends on SIZE (more than N vertices or edges, block sizes, chunking, "
        "recursion limits, sparse-vs-dense switches); choice or fallback of the linear solver (spsolve / lstsq / pinv / regularisation when a "
        "solve warns); warnings / exceptions policy (errors turned into warnings, bare excepts, finally clauses restoring state, assert "
        "statements removed under -O); re-entrancy (optimize called on a graph whose vertices or edges lists were extended or reordered by the "
        "user after construction; an edge shared by two live graphs that are optimised alternately); default-argument changes; keyword vs "
        "positional argument mix-ups; off-by-one in ranges for iteration bookkeeping; units (degrees/radians) and conventions (xyzw vs wxyz) "
        "at API boundaries only some callers use"),
}
IDEAS[6] = ("numerical-analysis level changes that are algebraically equivalent but not in floating point (re-associated sums / products, "
            "a different but 'equivalent' formula for an angle / norm / inverse, fused or split operations, accumulation in another order, "
            "subtracting nearly equal numbers, sqrt of a difference, acos / asin instead of atan2 away from the places earlier rounds used, "
            "normalising at another moment); tolerance semantics (rtol vs atol, np.isclose / np.allclose / math.isclose defaults, comparing "
            "squared quantities with unsquared tolerances, <= vs <, abs() dropped for quantities that can be negative); behaviour for inputs "
            "that are legal but degenerate in STRUCTURE rather than in value (graphs with several connected components, vertices no edge names, "
            "edges whose two ids are equal where that is meaningful, landmarks seen from one pose only, empty iteration_results, max_iter=1, "
            "single-vertex graphs, edges listed before / after / between the vertices they name in files, parameters defined after use); "
            "bookkeeping of OptimizationResult / IterationResult objects (fields filled late, shared mutable defaults, durations, is_complete, "
            "__str__ tables, objects reused between calls); changes in graphslam/__init__.py exports, logging calls with side effects, "
            "string formatting of numbers (repr vs str vs format specs, locale, exponent forms, -0.0, integers written as floats and back), "
            "integer-vs-float ids and counts in text; generators vs lists (a generator consumed twice, zip / map laziness, dict views mutated "
            "while iterating); early `return` / `continue` / `break` placement in loops over edges or vertices; exception types and the state "
            "left behind after an exception in the middle of a call (half-applied updates, flags set before a failure)")
EXCLUDED = {
    5: ("no never-invalidated caches, no truly in-place `+=`, no stale fixed sets / re-used Hessians, no ids through floats, no sign handling at "
        "w = 0, no thresholds on absolute magnitudes of information / gradient / angles, no integer-dtype truncation, no skipped duplicate lines, "
        "no class-level shared buffers or cached identity() objects, no `type(x) is` / `is True` identity tests, no relinking of edges only "
        "when unbound, no symmetrisation of information matrices, no float32 promotion, no subclass dispatch mix-ups, no regex tokenisers, no "
        "append-mode exports"),
}

EXCLUDED[6] = (EXCLUDED[5] + ", no deepcopy / pickle hooks, no `python -O` assert tricks, no block sizes / size thresholds (chunked writers, solver "
               "switches above N unknowns), no re-derivation of block offsets from the current list order, no warnings-filter dependence, no "
               "`lstrip(tag)` character-set stripping, no flag resets after optimize, no rounding of Jacobians to fixed decimals, no "
               "scalar-first quaternion order in parameter lines, no lowest-id-as-first-vertex")
IDEAS[7] = ("this time the choice is yours: read the code the property is anchored in, line by line, and look for the place where a maintainer's "
            "well-meant edit would be LEAST likely to be noticed -- an expression whose two operands could be swapped, a condition that could be "
            "inverted for one sub-case only, a default that could move, a loop bound, a slice, an index into a tuple, a helper that is shared by "
            "two callers with slightly different needs, a docstring formula that differs from the code, a special case someone might 'simplify "
            "away', an order of operations someone might 'clean up'; also interactions between TWO public features that are each fine alone "
            "(e.g. custom edge types x file import, fixed flags x export, offsets x copy, plotting x optimisation, equals x reloaded graphs, "
            "numpy integer ids x dictionaries, several graphs sharing poses); also non-finite or denormal inputs where the property's quantifier "
            "admits them")
EXCLUDED[7] = (EXCLUDED[6] + ", no DEBUG-logging side effects, no generators consumed twice, no keyword inserted into a signature, no relative / "
               "scaled finite-difference steps, no tolerance defaults of np.isclose / np.allclose smuggled into a comparison, no compact-form "
               "identity tests, no hand-typed constants")
IDEAS[8] = (IDEAS[7] + ". ADDITIONAL RULE FOR THIS ROUND: the earlier changes for this property cluster in a few files (see the file names in the "
            "list below); your change B must be in a file (or at least a function) that NONE of the listed changes touched -- trace how the "
            "property depends on less obvious code (constructors, properties, helpers in util.py / base classes / g2o_parameters.py / load.py / "
            "vertex.py, __init__ exports, class attributes such as COMPACT_DIMENSIONALITY) and break it there")
EXCLUDED[8] = (EXCLUDED[7] + ", no normalize() calls added inside other methods, no Hessian blocks assigned instead of accumulated, no errstate "
               "wrappers, no change of which vertex fix_first_pose marks")
IDEAS[9] = IDEAS[8]
EXCLUDED[9] = (EXCLUDED[8] + ", no mutation of an operand / argument by a comparison or an operator, no optional-argument defaults (offset_id, vertices=), no "
               "ndarray-subclass type leaks, no finite-difference fallbacks replacing analytic Jacobians, no early exits when nothing is free")
IDEAS[10] = ("TWO COOPERATING SITES: both A and B must this time consist of two (or more) edits in DIFFERENT functions / files that each look "
             "harmless alone and keep the property when applied alone, but break it together (e.g. a helper whose contract is subtly widened "
             "in one place and a caller that starts to rely on the old contract elsewhere; a convention changed consistently in all places "
             "but one; a value normalised at creation in one class and assumed normalised in another; a default moved from the callee to "
             "only some of its callers); AND the violation must need a MULTI-STEP HISTORY through the public API to manifest (e.g. "
             "construct -> optimize -> edit a pose / flag / measurement -> query; export -> import -> optimize -> export again; the same "
             "edge or vertex object serving two graphs one after the other; calling a query between two optimizer calls; a second call "
             "with other keyword arguments) - a single call on a fresh object must still behave correctly. " + IDEAS[7])
EXCLUDED[10] = (EXCLUDED[9] + ", no views returned by to_compact() / position, no IterationResult object reuse, no isdigit() id filters, no "
                "tag-anywhere-in-line matching, no fast paths for identity rotations or zero residuals")
IDEAS[11] = IDEAS[8]
EXCLUDED[11] = EXCLUDED[10]
os.makedirs(pdir, exist_ok=True)
for p in props:
    pid = p['id']
    earlier = []
    for d in sorted(glob.glob(os.path.join(here, 'seeded', pid + '-*'))):
        try:
            m = json.load(open(os.path.join(d, 'meta.json')))
            earlier.append('  - [' + ', '.join(os.path.basename(f) for f in m.get('files', [])) + '] ' + ' '.join(str(m.get('summary', '')).split())[:170])
        except Exception:  # noqa
            pass
    wt, out = os.path.join(wroot, pid), os.path.join(oroot, pid)
    q = p['quantifier']['text'] if isinstance(p['quantifier'], dict) else p['quantifier']
    text = f"""You are helping to evaluate a verification framework by producing "seeded defects" for the Python library python-graphslam (a pure-Python Gauss-Newton pose-graph SLAM optimizer over R2/R3/SE(2)/SE(3) with analytic Jacobians and .g2o import/export).

Your private scratch copy of the library is the git worktree at {wt} (detached HEAD of the upstream repo). Work ONLY inside {wt} and your output directory {out}. Do NOT read or touch /verif or /repo (other than that your worktree was created from /repo). Do not commit anything.

The property under study (this is all the context you get about it):

  id: {pid}
  title: {p['title']}
  statement: {p['statement']}
  quantifier: {q}
  why the existing tests cannot decide it: {p['why_tests_cant']}

TASK: produce TWO different, realistic source changes (call them A and B, with different mechanisms / in different places if possible) to the library code under {wt}/graphslam/ (never to tests/) such that each one:
  1. BREAKS the property above (for some input / configuration / sequence of calls),
  2. still imports fine and still passes the ENTIRE existing test suite unchanged (189 tests; run:  cd {wt} && /venv/bin/python -m pytest -q -p no:cacheprovider --timeout=900 tests  ; takes ~90 s; running from the worktree directory makes python import the worktree's graphslam - verify with  cd {wt} && /venv/bin/python -c "import graphslam; print(graphslam.__file__)" ),
  3. looks like a plausible maintainer mistake or a plausible "refactoring/optimisation gone slightly wrong" (a few lines), NOT something ordinary use would expose at once. Prefer changes that need something specific to manifest: an unusual input region, a multi-step sequence of operations, a particular configuration, or two cooperating sites that each look fine alone.

For each change write into {out}/A/ and {out}/B/ respectively:
  - patch.diff : output of `git -C {wt} diff` for that change alone (must apply cleanly to a clean checkout with `git apply`),
  - demo.py : a small standalone program (run as  cd <checkout> && /venv/bin/python demo.py ) that exits 0 on the unmodified library and exits non-zero (assert / sys.exit(1)) with the change applied, demonstrating the property violation through the public API. It must be deterministic. It must not depend on anything outside the library, numpy and the stdlib.
  - meta.json : {{"property": "{pid}", "summary": "...what was changed...", "needs": "...what is needed for the violation to manifest...", "files": [...], "tests_passed": <int>, "tests_failed": <int>}}

Procedure: make change A, run the full test suite (must be 189 passed), run demo.py (must fail), save patch, `git -C {wt} checkout -- .`, run demo.py again (must pass on the clean tree), then do the same for B. Leave the worktree clean (git -C {wt} checkout -- . ; remove untracked files you created there) when finished. IMPORTANT: the unmodified library has some pre-existing quirks; your demo must PASS on the unmodified library, so build the demo around behaviour that is correct today. The violation must be a violation of THE PROPERTY AS STATED (within its quantifier), not of some other expectation.

NOTE - ROUND {rnd}: {rnd - 1} earlier rounds already produced the changes listed at the end for this property. Yours must again be of a DIFFERENT KIND and subtle. Ideas that have NOT been used yet: {IDEAS[rnd]}. The violation should need something specific to manifest, not show up in ordinary use. Do NOT re-use the mechanisms of the earlier rounds (listed below) - in particular {EXCLUDED[rnd]}:
{chr(10).join(earlier)}
The library version in your worktree already contains several recent bug fixes (see `git log`); do not revert those fixes as your change.

Your final answer must be SHORT (at most 12 lines): for A and B one line each saying what was changed and what it needs to manifest, plus the test-suite result counts. No code in the final answer."""
    open(os.path.join(pdir, pid + '.txt'), 'w').write(text)
print('wrote', len(props), 'prompts to', pdir)
