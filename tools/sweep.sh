#!/bin/sh
# usage: tools/sweep.sh <tier> <seed> [<seed> ...]   -- runs every check once per seed; prints one line per run; non-zero exits are listed at the end
tier="$1"; shift
cd "$(dirname "$0")/.."
# under `vp run --with-repo` the snapshot of /repo is used, so that seeded changes applied to /repo meanwhile do not disturb the sweep
[ -n "$VP_RUN_REPO" ] && export VERIF_REPO="$VP_RUN_REPO"
bad=""
for s in "$@"; do
  for c in C01 C02 C03 C04 C05 C06 C07 C08 C09 C10 C11 C12 C13 C14 C15 C16 C17 C18; do
    out=$(VERIF_SEED=$s ./check $c --tier $tier 2>&1); rc=$?
    echo "seed=$s rc=$rc $(echo "$out" | tail -1 | cut -c1-200)"
    if [ $rc -ne 0 ]; then bad="$bad $c@$s"; echo "$out" | grep -E "VIOLATION|MACHINERY|   " | head -6 | cut -c1-400; fi
  done
done
echo "NONZERO:$bad"
