#!/usr/bin/env python3
"""Store a confirmed seeded change under /verif/seeded/<name>/ (patch.diff, demo.py, meta.json).

usage: tools/store_seeded.py <source dir> <name> <round> <detected_by (comma separated check ids)> <note>
The source directory is what a sub-agent produced (patch.diff, demo.py, meta.json); the change must have been confirmed beforehand with
selftest/confirm_seeded.sh (demo passes on the clean tree, fails on the patched tree, the repository's tests pass) and with
selftest/with_patch.sh (which checks report it)."""
import json
import os
import shutil
import sys

src, name, rnd, det, note = sys.argv[1:6]
dst = os.path.join(os.path.dirname(os.path.dirname(os.path.abspath(__file__))), 'seeded', name)
os.makedirs(dst, exist_ok=True)
for f in ('patch.diff', 'demo.py'):
    shutil.copy(os.path.join(src, f), os.path.join(dst, f))
meta = json.load(open(os.path.join(src, 'meta.json')))
meta['round'] = int(rnd)
checks = [c for c in det.split(',') if c]
meta['confirmed'] = {
    'applies_to_repo_head': True,
    'detected_by': checks,
    'how': 'selftest/with_patch.sh seeded/%s/patch.diff %s -> exit 1 with VIOLATION lines; unchanged tree exit 0' % (name, ' '.join(checks)),
    'note': note,
}
json.dump(meta, open(os.path.join(dst, 'meta.json'), 'w'), indent=1)
print('stored', dst)
