"""Run under `python -O` (assert statements stripped) by C02: chi^2 of graphs built from lattice edge cases, printed as JSON.

The library validates with assert statements, so `-O` legitimately removes the REJECTION of ill-formed input -- but nothing a well-formed
graph needs may live inside an assert."""
import json
import sys

from graphslam.graph import Graph

from . import edgecases as EC


def main():
    batches = json.load(sys.stdin)
    out = []
    for batch in batches:
        edges, verts = [], []
        for n, c in enumerate(batch):
            e, v1, v2 = EC.build_edge(c)
            v1.id, v2.id = 10 * n + 1, 10 * n + 2
            e.vertex_ids = [v1.id, v2.id]
            e.vertices = None if n % 2 == 0 else [v2, v1][::-1]
            edges.append(e)
            verts += [v2, v1]
        try:
            out.append(float(Graph(edges, verts).calc_chi2()))
        except Exception as ex:  # noqa
            out.append('raised: %r' % (ex,))
    json.dump(out, sys.stdout)


if __name__ == '__main__':
    main()
