"""Build real python-graphslam objects from lattice data of the specification, and TLA+ text from Python data."""
import math
from fractions import Fraction

import numpy as np

from graphslam.pose.r2 import PoseR2
from graphslam.pose.r3 import PoseR3
from graphslam.pose.se2 import PoseSE2
from graphslam.pose.se3 import PoseSE3

KIND_OF = {PoseR2: 'R2', PoseR3: 'R3', PoseSE2: 'SE2', PoseSE3: 'SE3'}
CLS_OF = {'R2': PoseR2, 'R3': PoseR3, 'SE2': PoseSE2, 'SE3': PoseSE3}
CDIM = {'R2': 2, 'R3': 3, 'SE2': 3, 'SE3': 6}
FDIM = {'R2': 2, 'R3': 3, 'SE2': 3, 'SE3': 7}
DIM = {'R2': 2, 'R3': 3, 'SE2': 2, 'SE3': 3}


_calls = [0]


def pose(kind, t, r=(), shift=0, negq=False):
    """kind, integer (or Fraction) translation, lattice rotation (<<c,s,den>> / <<x,y,z,w,den>>) -> real pose object.

    Every third call hands the translation over as Python ints / an integer ndarray / a tuple instead of floats (legal argument forms
    of the constructors), so that a dependence on the argument form shows."""
    _calls[0] += 1
    form = _calls[0] % 6
    if all(float(x).is_integer() for x in t) and form in (0, 1, 2, 4) and all(abs(x) < 2 ** 24 for x in t):
        tt = ([int(x) for x in t] if form == 0 else np.array([float(x) for x in t], dtype=np.float32) if form == 1
              else np.array([int(x) for x in t], dtype=np.int64) if form == 2 else tuple(float(x) for x in t))
    else:
        tt = [float(x) for x in t]
    if kind == 'R2':
        return PoseR2(tt)
    if kind == 'R3':
        return PoseR3(tt)
    if kind == 'SE2':
        ang = math.atan2(r[1], r[0]) + 2.0 * math.pi * shift
        return PoseSE2(tt, np.float64(ang) if form % 2 else ang)          # (the heading is a Python float or a numpy scalar)
    if kind == 'SE3':
        s = -1.0 if negq else 1.0
        den = float(r[4])
        q = [s * r[0] / den, s * r[1] / den, s * r[2] / den, s * r[3] / den]
        if form == 3:
            big = np.zeros(8)
            big[::2] = q
            q = big[::2]                      # a non-contiguous view
        elif form == 5:
            q = np.array(q[::-1])[::-1]       # a negative-stride view
        elif form == 1:
            q = tuple(q)
        return PoseSE3(tt, q)
    raise ValueError(kind)


def info(W):
    """Information matrix; every fourth one is handed over as an integer ndarray (the lattice matrices are integer valued); the others vary
    in storage order, contiguity and writability."""
    _calls[0] += 1
    if _calls[0] % 4 == 0 and all(float(x).is_integer() for row in W for x in row):
        return np.array([[int(x) for x in row] for row in W], dtype=np.int64)
    m = np.array([[float(x) for x in row] for row in W], dtype=np.float64)
    if _calls[0] % 4 == 1:
        m = np.asfortranarray(m)                       # column-major storage
    elif _calls[0] % 4 == 2:
        n = len(W)
        big = np.zeros((2 * n, 2 * n))
        big[::2, ::2] = m
        m = big[::2, ::2]                              # a non-contiguous view
    elif _calls[0] % 8 == 7 and len(W) > 1:
        # symmetric only up to rounding (what inv(cov) or R diag(w) R^T produce): upper off-diagonal entries moved by one ulp
        for i in range(len(W)):
            for j in range(i + 1, len(W)):
                m[i, j] = np.nextafter(m[i, j], np.inf)
    elif _calls[0] % 8 == 3:
        m.setflags(write=False)                        # a read-only array: the library has no business writing into its inputs
    return m


def f(q):
    return Fraction(q[0], q[1])


def fl(q):
    return q[0] / q[1]


# ---------- Python data -> TLA+ text ----------
def tla(x):
    if isinstance(x, bool):
        return 'TRUE' if x else 'FALSE'
    if isinstance(x, int):
        return str(x)
    if isinstance(x, str):
        return '"%s"' % x
    if isinstance(x, (list, tuple)):
        return '<<' + ', '.join(tla(y) for y in x) + '>>'
    if isinstance(x, dict):
        return '[' + ', '.join('%s |-> %s' % (k, tla(v)) for k, v in x.items()) + ']'
    if isinstance(x, (set, frozenset)):
        return '{' + ', '.join(tla(y) for y in sorted(x, key=repr)) + '}'
    raise TypeError(type(x))


# ---------- the lattice, Python side (inputs only; the oracle is evaluated by TLC) ----------
def signed_perms4(v, den):
    import itertools
    out = set()
    for p in itertools.permutations(range(4)):
        for s in itertools.product((-1, 1), repeat=4):
            out.add(tuple(s[i] * v[p[i]] for i in range(4)) + (den,))
    return sorted(out)


HURWITZ = signed_perms4((1, 0, 0, 0), 1) + signed_perms4((1, 1, 1, 1), 2)
Q3 = signed_perms4((1, 2, 2, 0), 3)
Q5A = signed_perms4((0, 0, 3, 4), 5)
Q5B = signed_perms4((1, 2, 2, 4), 5)
Q7 = signed_perms4((2, 3, 6, 0), 7)
QSMALL = [q for q in signed_perms4((40, 0, 0, 399), 401) if abs(q[3]) == 399] + [q for q in signed_perms4((20, 0, 0, 99), 101) if abs(q[3]) == 99]
QNEARPI = [q for q in signed_perms4((40, 0, 0, 399), 401) if abs(q[3]) == 40]
QMIXED = Q3 + Q5A + Q5B + Q7


def signed_perms2(a, b, den):
    out = set()
    for sa in (-1, 1):
        for sb in (-1, 1):
            out.add((sa * a, sb * b, den))
            out.add((sb * b, sa * a, den))
    return sorted(out)


C4 = signed_perms2(1, 0, 1)
PY5 = signed_perms2(3, 4, 5)
PY13 = signed_perms2(5, 12, 13)
PY401 = [(c * 399, s * 40, 401) for c in (-1, 1) for s in (-1, 1)]
ROT2ALL = C4 + PY5 + PY13 + PY401
