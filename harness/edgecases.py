"""Shared by C01 / C02: generate lattice edge cases, let TLC evaluate the exact model, rebuild the edges in the code."""
import json
import math
import os
import random

import numpy as np

from graphslam.edge.edge_landmark import EdgeLandmark
from graphslam.edge.edge_odometry import EdgeOdometry
from graphslam.pose.r2 import PoseR2
from graphslam.pose.r3 import PoseR3
from graphslam.pose.se2 import PoseSE2
from graphslam.pose.se3 import PoseSE3
from graphslam.vertex import Vertex

from . import build as B
from . import tlc, tlaval

# ---- information catalogue (integer symmetric matrices) ----


def W_id(n):
    return [[1 if i == j else 0 for j in range(n)] for i in range(n)]


def W_diag(n):
    return [[i + 1 if i == j else 0 for j in range(n)] for i in range(n)]


def W_cross(n):
    return [[n + 2 if i == j else 1 for j in range(n)] for i in range(n)]


def W_cross2(n):
    return [[2 * n if i == j else (1 if (i + j) % 2 == 0 else -1) for j in range(n)] for i in range(n)]


def W_cross3(n):
    return [[3 * n + i + 1 if i == j else -abs(i - j) for j in range(n)] for i in range(n)]


def W_ill(n):
    return [[(10000 if i == 1 else 1) if i == j else 0 for j in range(n)] for i in range(n)]


def W_ones(n):
    return [[1] * n for _ in range(n)]


def W_indef(n):
    return [[(-1 if i % 2 else 2) if i == j else (3 if i + j == n - 1 else 0) for j in range(n)] for i in range(n)]


W_PSD = [W_id, W_diag, W_cross, W_cross2, W_cross3, W_ill, W_ones]
W_ALL = W_PSD + [W_indef]

T3 = [(0, 0, 0), (1, 2, 3), (-3, 1, -2), (2, -5, 4), (-4, -7, -1), (6, 0, -8), (-17, 11, 5)]
T2 = [(0, 0), (1, 2), (-3, 1), (2, -5), (-4, -7), (6, -8), (-17, 11)]
T3L = [(10000, -7000, 300), (-123, 9999, -5000), (4096, 8192, -1024), (500, -300, 40), (-123, 499, -250)]
T2L = [(10000, -7000), (-123, 9999), (4096, -8192), (500, -300), (-123, 499)]


def _dyadic(r):
    return (not r) or r[-1] in (1, 2)


def _chi2_headroom(c):
    """Conservative static rule: may TLC evaluate chi^2 of this case within 32-bit integers?"""
    rots = [c[k] for k in ('r1', 'r2', 'rz', 'roff') if k in c and c[k]]
    nd = [r for r in rots if not _dyadic(r)]
    tmax = max([abs(x) for k in ('t1', 't2', 'tz', 'toff') if k in c for x in c[k]] + [1])
    wmax = max(abs(x) for row in c['W'] for x in row)
    if not nd:
        units = all(r[-1] == 1 for r in rots)
        return (tmax <= 20 and (wmax <= 24 or units)) or (tmax <= 600 and wmax <= 24 and units)
    if tmax > 20 or wmax > 24 or len(nd) > 1:
        return False
    den = nd[0][-1]
    return den <= 13 if c['k'] == 'SE2' else den <= 7


def headroom_class(c):
    dens = tuple((c[k][-1] if c.get(k) else 0) for k in ('r1', 'r2', 'rz', 'roff'))
    tmax = max([abs(x) for k in ('t1', 't2', 'tz', 'toff') if k in c for x in c[k]] + [1])
    wmax = max(abs(x) for row in c['W'] for x in row)
    return (c['fam'], c['k'], dens, tmax > 20, bool(c.get('chi2')), wmax > 24)


def gen_cases(tier, seed, with_chi2=True):
    """Return list of case dicts (JSON-able)."""
    rnd = random.Random(seed * 7919 + 17)
    cases = []

    def W(n, idx):
        fn = W_ALL[idx % len(W_ALL)]
        return fn(n), fn in W_PSD

    def add(c, n, widx):
        c['W'], c['psd'] = W(n, widx)
        c['chi2'] = bool(with_chi2 and _chi2_headroom(c))
        c['tiny'] = bool(c.get('rz') and c['rz'][-1] > 1000)
        cases.append(c)

    thorough = tier == 'thorough'
    # -- SE(3) odometry: all Hurwitz pairs x mixed measurement rotations
    mixed = [B.Q3[5], B.Q3[77], B.Q5A[30], B.Q5B[101], B.Q7[150], B.QMIXED[rnd.randrange(len(B.QMIXED))]]
    hz = B.HURWITZ
    n = 0
    q2set = hz if thorough else [hz[j] for j in sorted(rnd.sample(range(24), 8))]
    for q1 in hz:
        for q2 in q2set:
            for qz in ([hz[rnd.randrange(24)]] + (mixed if thorough else rnd.sample(mixed, 2))):
                t = rnd.sample(T3, 3)
                add(dict(fam='odo', k='SE3', t1=t[0], r1=q1, t2=t[1], r2=q2, tz=t[2], rz=qz), 6, n)
                n += 1
    # mixed-denominator vertices, Hurwitz measurement / second vertex (headroom rule of Q)
    for _ in range(8000 if thorough else 300):
        q1 = rnd.choice(B.QMIXED)
        q2 = rnd.choice(hz + B.Q3 + B.Q5A)
        qz = rnd.choice(hz)
        t = [rnd.choice(T3) for _ in range(3)]
        add(dict(fam='odo', k='SE3', t1=t[0], r1=q1, t2=t[1], r2=q2, tz=t[2], rz=qz), 6, n)
        n += 1
    # small angles / almost 180 degrees (one 401- or 101-family operand per case), large translations with dyadic rotations
    for _ in range(2500 if thorough else 120):
        qs = rnd.choice(B.QSMALL + B.QNEARPI)
        others = [rnd.choice(hz), rnd.choice(hz)]
        pos = 1 + rnd.randrange(2)          # (a 401-family first vertex exceeds TLC's 32-bit headroom)
        qq = others[:pos] + [qs] + others[pos:]
        t = [rnd.choice(T3) for _ in range(3)]
        add(dict(fam='odo', k='SE3', t1=t[0], r1=qq[0], t2=t[1], r2=qq[1], tz=t[2], rz=qq[2]), 6, n)
        n += 1
    for _ in range(1500 if thorough else 80):
        t = [rnd.choice(T3L + T3) for _ in range(3)]
        add(dict(fam='odo', k='SE3', t1=t[0], r1=rnd.choice(hz), t2=t[1], r2=rnd.choice(hz), tz=t[2], rz=rnd.choice(hz)), 6, n)
        n += 1
    # tiny measurement rotations (0.5 deg ... 0.005 deg): the odometry error is linear in the measurement's rotation, so the large denominator of
    # q = (2n, 0, 0, n^2 - 1) / (n^2 + 1) fits TLC's integers although nothing on the ordinary lattice comes closer to the identity than 5 degrees
    for nn in (100, 500, 2000, 20000):
        for ax in range(3):
            for sg in (1, -1):
                q = [0, 0, 0, nn * nn - 1, nn * nn + 1]
                q[ax] = sg * 2 * nn
                for _ in range(4 if thorough else 1):
                    t = [rnd.choice(T3) for _ in range(3)]
                    add(dict(fam='odo', k='SE3', t1=t[0], r1=rnd.choice(hz), t2=t[1], r2=rnd.choice(hz), tz=t[2], rz=tuple(q)), 6, n)
                    n += 1
        for sg in (1, -1):
            if nn > 100:
                continue          # (the SE(2) angle gradient c ds - s dc squares the denominator)
            for _ in range(4 if thorough else 1):
                t = [rnd.choice(T2) for _ in range(3)]
                add(dict(fam='odo', k='SE2', t1=t[0], r1=rnd.choice(B.C4), t2=t[1], r2=rnd.choice(B.C4), tz=t[2], rz=(nn * nn - 1, sg * 2 * nn, nn * nn + 1)), 3, n)
                n += 1
    # -- SE(2) odometry
    r2 = B.C4 + B.PY5 + B.PY13
    for r1 in r2:
        for rr2 in (r2 if thorough else rnd.sample(r2, 8)):
            for rz in (rnd.sample(r2, 8) if thorough else rnd.sample(r2, 3)):
                t = rnd.sample(T2, 3)
                add(dict(fam='odo', k='SE2', t1=t[0], r1=r1, t2=t[1], r2=rr2, tz=t[2], rz=rz), 3, n)
                n += 1
    # either side of +-pi and of 0: one 401-family rotation per case
    for _ in range(2500 if thorough else 150):
        rr = [rnd.choice(B.PY401), rnd.choice(B.C4 + B.PY5), rnd.choice(B.C4 + B.PY5)]
        rnd.shuffle(rr)
        t = rnd.sample(T2, 3)
        add(dict(fam='odo', k='SE2', t1=t[0], r1=rr[0], t2=t[1], r2=rr[1], tz=t[2], rz=rr[2]), 3, n)
        n += 1
    for _ in range(1200 if thorough else 60):
        t = [rnd.choice(T2L + T2) for _ in range(3)]
        add(dict(fam='odo', k='SE2', t1=t[0], r1=rnd.choice(B.C4), t2=t[1], r2=rnd.choice(B.C4 + B.PY5), tz=t[2], rz=rnd.choice(B.C4)), 3, n)
        n += 1
    # -- R^n odometry
    for k, TT, nn in (('R2', T2 + T2L, 2), ('R3', T3 + T3L, 3)):
        for _ in range(200 if thorough else 40):
            t = [rnd.choice(TT) for _ in range(3)]
            add(dict(fam='odo', k=k, t1=t[0], r1=[], t2=t[1], r2=[], tz=t[2], rz=[]), nn, n)
            n += 1
    # -- landmark SE(3) -> R^3 with rotated offsets
    qpool = hz + [B.Q3[5], B.Q3[77], B.Q5A[30], B.Q5B[101], B.Q7[150], B.Q3[40], B.Q5A[11], B.Q7[3]]
    for q1 in qpool:
        for qo in (qpool if thorough else rnd.sample(qpool, 8)):
            t = [rnd.choice(T3) for _ in range(4)]
            add(dict(fam='lm', k='SE3', k2='R3', t1=t[0], r1=q1, t2=t[1], toff=t[2], roff=qo, tz=t[3]), 3, n)
            n += 1
    for _ in range(300 if thorough else 60):
        t = [rnd.choice(T3L + T3) for _ in range(4)]
        add(dict(fam='lm', k='SE3', k2='R3', t1=t[0], r1=rnd.choice(hz), t2=t[1], toff=t[2], roff=rnd.choice(hz), tz=t[3]), 3, n)
        n += 1
    for _ in range(300 if thorough else 60):
        t = [rnd.choice(T3) for _ in range(4)]
        qs = [rnd.choice(hz), rnd.choice(B.QSMALL + B.QNEARPI)]      # (a 401-family first vertex exceeds TLC's headroom)
        add(dict(fam='lm', k='SE3', k2='R3', t1=t[0], r1=qs[0], t2=t[1], toff=t[2], roff=qs[1], tz=t[3]), 3, n)
        n += 1
    # -- landmark SE(2) -> R^2 with rotated offsets
    r2 = B.ROT2ALL
    for r1 in r2:
        for ro in (r2 if thorough else rnd.sample(r2, 8)):
            if r1[-1] == 401 and ro[-1] == 401:
                continue
            t = [rnd.choice(T2) for _ in range(4)]
            add(dict(fam='lm', k='SE2', k2='R2', t1=t[0], r1=r1, t2=t[1], toff=t[2], roff=ro, tz=t[3]), 2, n)
            n += 1
    for _ in range(200 if thorough else 40):
        t = [rnd.choice(T2L + T2) for _ in range(4)]
        add(dict(fam='lm', k='SE2', k2='R2', t1=t[0], r1=rnd.choice(B.C4 + B.PY5), t2=t[1], toff=t[2], roff=rnd.choice(B.C4), tz=t[3]), 2, n)
        n += 1
    # -- exact identities: the observing pose, the offset, their COMPOSITION, the relative pose or the measurement is exactly the identity
    #    (that is where shortcuts for "nothing to do" live)
    from . import design
    for kind, k2, ident, TT in (('SE2', 'R2', (1, 0, 1), T2), ('SE3', 'R3', (0, 0, 0, 1, 1), T3)):
        G = design.Grp(kind)
        d = B.DIM[kind]
        zero = tuple([0] * d)
        for _ in range(12 if thorough else 4):
            p = (tuple(rnd.choice(TT)), tuple(G.rnd(rnd)))
            pinv = G.rel(p, (zero, ident))
            pinv = (tuple(pinv[0]), tuple(pinv[1]))
            t2, tz = rnd.choice(TT), rnd.choice(TT)
            combos = [(zero, ident, zero, ident), (p[0], p[1], pinv[0], pinv[1]), (zero, ident, p[0], p[1]), (p[0], p[1], zero, ident)]
            if kind == 'SE3':
                # the identity rotation written as the quaternion -1 (a compact form that drops the scalar part cannot tell it from +1)
                mone = (0, 0, 0, -1, 1)
                combos += [(p[0], p[1], zero, mone), (zero, mone, p[0], p[1]), (zero, mone, zero, mone)]
            for t1, r1, toff, roff in combos:
                add(dict(fam='lm', k=kind, k2=k2, t1=t1, r1=r1, t2=t2, toff=toff, roff=roff, tz=tz), d, n)
                n += 1
            add(dict(fam='odo', k=kind, t1=p[0], r1=p[1], t2=p[0], r2=p[1], tz=zero, rz=ident), B.CDIM[kind], n)
            n += 1
            add(dict(fam='odo', k=kind, t1=zero, r1=ident, t2=t2, r2=tuple(G.rnd(rnd)), tz=tz, rz=tuple(G.rnd(rnd))), B.CDIM[kind], n)
            n += 1
            add(dict(fam='odo', k=kind, t1=p[0], r1=p[1], t2=t2, r2=tuple(G.rnd(rnd)), tz=zero, rz=ident), B.CDIM[kind], n)
            n += 1
    # -- landmark R^n -> R^n with offsets
    for k, TT, nn in (('R2', T2 + T2L, 2), ('R3', T3 + T3L, 3)):
        for _ in range(200 if thorough else 40):
            t = [rnd.choice(TT) for _ in range(4)]
            add(dict(fam='lm', k=k, k2=k, t1=t[0], r1=[], t2=t[1], toff=t[2], roff=[], tz=t[3]), nn, n)
            n += 1
    return cases


def evaluate(cases, K, name, run, timeout=3000, spec='MC_EdgeCases', invariants=('InputsUnit', 'Chi2NonNeg'), max_retry=60):
    """Run TLC on `spec` over `cases`; return list of (case, obs).  A case on which TLC's 32-bit integers overflow is dropped together
    with its denominator class (counted as skipped) and the REMAINING cases are evaluated in a new run (cases already evaluated are kept):
    overflow is a limit of the machinery, never a verdict."""
    import re
    import shutil
    todo = list(enumerate(cases))          # (original index, case)
    done = {}
    for attempt in range(max_retry + 1):
        if not todo:
            break
        d = tlc.scratch()
        with open(os.path.join(d, 'cases.ndjson'), 'w') as f:
            for _, c in todo:
                f.write(json.dumps(c) + '\n')
        if K is None:
            mc = '---- MODULE %s ----\nEXTENDS %s\n====\n' % (name, spec)
            cfg = 'SPECIFICATION Spec\n' + ''.join('INVARIANT %s\n' % iv for iv in invariants)
        else:
            mc = '---- MODULE %s ----\nEXTENDS %s\nKK == %d\n====\n' % (name, spec, K)
            cfg = 'SPECIFICATION Spec\nCONSTANTS\n  K <- KK\n' + ''.join('INVARIANT %s\n' % iv for iv in invariants)
        try:
            overflow_at = None
            try:
                res = tlc.run(name, cfg, mc_text=mc, dump=True, keep_dir=d, timeout=timeout)
            except tlc.TLCError as e:
                m = re.search(r'/\\ i = (\d+)', str(e)) if 'Overflow' in str(e) else None
                if not m or attempt >= max_retry:
                    raise
                overflow_at = int(m.group(1))
                res = None
            if res is not None and res.violation:
                raise tlc.TLCError('model invariant %s violated in %s:\n%s' % (res.violation, name, res.out[-2000:]))
            dump = os.path.join(d, 'states.dump')
            got = {}
            if os.path.exists(dump):
                try:
                    for st in tlaval.iter_dump(dump):
                        if st.get('phase') == 1:
                            got[st['i']] = st['obs']
                except Exception:  # noqa  (a dump cut off by the kill: keep what parsed)
                    pass
            for k, obs in got.items():
                done[todo[k - 1][0]] = obs
            if res is not None:
                run.add_tlc(res, name)
                if len(got) != len(todo):
                    raise tlc.TLCError('expected %d evaluated cases, got %d' % (len(todo), len(got)))
                todo = []
            else:
                bad = todo[overflow_at - 1][1]
                sig = headroom_class(bad)
                n0 = len(todo)
                todo = [(k, c) for pos, (k, c) in enumerate(todo, start=1) if pos not in got and headroom_class(c) != sig]
                dropped = n0 - len(todo) - len(got)
                run.skip('cases dropped: TLC 32-bit overflow while evaluating the exact model (whole denominator class)', max(dropped, 1))
                run.notes.setdefault('overflow_classes', []).append(repr(sig)[:200])
                run.states += len(got)
                run.transitions += len(got)
        finally:
            shutil.rmtree(d, ignore_errors=True)
    return [(cases[k], done[k]) for k in sorted(done)]


class _SubR2(PoseR2):
    """Trivial user subclasses of the pose classes: instances of a subclass are instances of the pose type and must be treated alike."""


class _SubR3(PoseR3):
    pass


class _SubSE2(PoseSE2):
    pass


class _SubSE3(PoseSE3):
    pass


_SUB = {PoseR2: _SubR2, PoseR3: _SubR3, PoseSE2: _SubSE2, PoseSE3: _SubSE3}


def build_edge(c):
    """Real vertices + edge for a case; about every fifth edge is handed poses that are instances of trivial subclasses of the pose classes."""
    e, v1, v2 = _build_edge(c)
    if (int(sum(c['t1'])) + int(sum(c['tz']))) % 5 == 0:          # (a function of the case, so that two edges built from one case agree in type)
        v1.pose = v1.pose.view(_SUB[type(v1.pose)])
        if c['fam'] == 'odo':
            v2.pose, e.estimate = v2.pose.view(_SUB[type(v2.pose)]), e.estimate.view(_SUB[type(e.estimate)])
        else:
            e.offset = e.offset.view(_SUB[type(e.offset)])          # (the landmark edge's own validity rule wants the point to be exactly PoseR2 / PoseR3)
    return e, v1, v2


def _build_edge(c):
    """SE(2) headings are handed to the constructors with extra whole turns (up to +-5) now and then."""
    if c['fam'] == 'odo':
        k = c['k']
        sh = [(0, 0, 0), (2, 0, 0), (0, -3, 0), (0, 0, 5), (-4, 2, -2), (0, 0, 0)][(int(sum(c['t2'])) + int(sum(c['tz']))) % 6] if k == 'SE2' else (0, 0, 0)
        v1 = Vertex(1, B.pose(k, c['t1'], c['r1'], shift=sh[0]))
        v2 = Vertex(2, B.pose(k, c['t2'], c['r2'], shift=sh[1]))
        e = EdgeOdometry([1, 2], B.info(c['W']), B.pose(k, c['tz'], c['rz'], shift=sh[2]), [v1, v2])
    else:
        v1 = Vertex(1, B.pose(c['k'], c['t1'], c['r1']))
        v2 = Vertex(2, B.pose(c['k2'], c['t2']))
        e = EdgeLandmark([1, 2], B.info(c['W']), B.pose(c['k2'], c['tz']), B.pose(c['k'], c['toff'], c['roff']), vertices=[v1, v2])
    return e, v1, v2


def scale_of(c):
    m = 1.0
    for key in ('t1', 't2', 'tz', 'toff'):
        if key in c:
            m = max(m, max(abs(x) for x in c[key]) if c[key] else 0)
    return m


def wrap_diff(a):
    return (a + math.pi) % (2 * math.pi) - math.pi


def compare_error(c, obs, err, tol):
    """Compare the code's error vector with the exact one. Returns (ok, flipped, maxdev, message)."""
    exp = obs['e']
    err = np.asarray(err, dtype=float)
    if err.shape != (len(exp),):
        return False, False, float('inf'), 'error has shape %s, expected (%d,)' % (err.shape, len(exp))
    S = scale_of(c)
    devs = []
    for j, x in enumerate(exp):
        if isinstance(x[0], str):  # angular atom
            a = math.atan2(x[2][0] / x[2][1], x[1][0] / x[1][1])
            dv = abs(wrap_diff(err[j] - a))
            if not (-math.pi - 1e-15 <= err[j] <= math.pi + 1e-15):
                return False, False, float('inf'), 'angular error %r outside [-pi, pi]' % err[j]
            devs.append(dv * S)  # held to tol (not tol*S)
        else:
            devs.append(abs(err[j] - x[0] / x[1]))
    md = max(devs)
    if md <= tol * S * 4:
        return True, False, md, ''
    # sign-canonical convention for the SE(3) error quaternion (w < 0 => negated vector part) is accepted as well
    # (w == 0: the error is exactly a half turn, the sign of its quaternion is undetermined - both representatives are accepted)
    if c['fam'] == 'odo' and c['k'] == 'SE3' and obs['w'][0] <= 0:
        devs2 = [abs(err[j] - (1 if j < 3 else -1) * exp[j][0] / exp[j][1]) for j in range(6)]
        if max(devs2) <= tol * S * 4:
            return True, True, max(devs2), ''
    j = int(np.argmax(devs))
    return False, False, md, 'error component %d: code %r, exact %r (deviation %.3g > %.3g)' % (j, float(err[j]), exp[j], md, tol * S * 4)


def compare_jacobians(c, obs, jacs, flipped, tol):
    Jexp = obs['J']
    k1 = c['k']
    k2 = c['k'] if c['fam'] == 'odo' else c['k2']
    c1, c2 = B.CDIM[k1], B.CDIM[k2]
    rows = len(Jexp)
    S = scale_of(c)
    if len(jacs) != 2:
        return False, float('inf'), 'expected 2 Jacobians, got %d' % len(jacs)
    md = 0.0
    for vi, (Jc, off, cd) in enumerate(((jacs[0], 0, c1), (jacs[1], c1, c2))):
        Jc = np.asarray(Jc, dtype=float)
        if Jc.shape != (rows, cd):
            return False, float('inf'), 'Jacobian %d has shape %s, expected %s' % (vi, Jc.shape, (rows, cd))
        for r in range(rows):
            sg = -1.0 if (flipped and r >= 3) else 1.0
            for col in range(cd):
                q = Jexp[r][off + col]
                dv = abs(Jc[r, col] - sg * q[0] / q[1])
                if dv > md:
                    md = dv
                if dv > tol * S * 8:
                    return False, dv, 'dJ[vertex %d][%d,%d]: code %r, exact %s/%s (deviation %.3g > %.3g)' % (
                        vi, r, col, float(Jc[r, col]), sg * q[0], q[1], dv, tol * S * 8)
    # unused directions must have zero derivative in the model
    for r in range(rows):
        for col in range(c1 + c2, len(Jexp[r])):
            if Jexp[r][col][0] != 0:
                return False, float('inf'), 'model: non-zero derivative along unused direction'
    return True, md, ''


def chi2_expected(obs):
    f0 = obs['chi2']['c0'][0] / obs['chi2']['c0'][1]
    f1 = obs['chi2']['c1'][0] / obs['chi2']['c1'][1]
    f2 = obs['chi2']['c2'][0] / obs['chi2']['c2'][1]
    a = 0.0
    for x in obs['e']:
        if isinstance(x[0], str):
            a = math.atan2(x[2][0] / x[2][1], x[1][0] / x[1][1])
    return f0 + f1 * a + f2 * a * a, (f1 != 0 or f2 != 0), a
