"""Graph fixtures for recorded sessions: ground truth + measurements + perturbed initial guess (real python-graphslam objects)."""
import math
import random

import numpy as np

from graphslam.edge.base_edge import BaseEdge
from graphslam.edge.edge_landmark import EdgeLandmark
from graphslam.edge.edge_odometry import EdgeOdometry
from graphslam.graph import Graph
from graphslam.pose.r2 import PoseR2
from graphslam.pose.r3 import PoseR3
from graphslam.pose.se2 import PoseSE2
from graphslam.pose.se3 import PoseSE3
from graphslam.vertex import Vertex

from . import build as B


class RangeEdge(BaseEdge):
    """User-defined edge with numerical Jacobians: distance between the positions of two vertices."""

    def calc_error(self):
        return np.array([np.linalg.norm(np.array(self.vertices[0].pose.position) - np.array(self.vertices[1].pose.position)) - self.estimate])

    def is_valid(self):
        return self._is_valid() and len(self.vertices) == 2


class PriorEdge(BaseEdge):
    """User-defined unary edge with numerical Jacobians: the pose should be `estimate`."""

    def calc_error(self):
        return (self.vertices[0].pose - self.estimate).to_compact()

    def is_valid(self):
        return self._is_valid() and len(self.vertices) == 1


class FaultInjected(RuntimeError):
    """What a user-defined edge raises when its sensor model fails."""


class FaultEdge(PriorEdge):
    """A user-defined unary edge that can be ARMED to fail: once armed with `budget = n`, the (n+1)-th linearisation requested from it raises.
    Disarmed (budget None) it is an ordinary prior edge with numerical Jacobians.  (Fault dimension of the scenarios: GraphSLAM!OptAbort.)"""
    is_fault = True
    budget = None
    calls = 0

    def calc_chi2_gradient_hessian(self):
        if self.budget is not None:
            self.calls += 1
            if self.calls > self.budget:
                raise FaultInjected('linearisation %d of the armed edge' % self.calls)
        return super().calc_chi2_gradient_hessian()


def faulty(kind, **kw):
    def f(seed):
        es, vs, t = make(kind, seed, **kw)
        rnd = random.Random(seed + 5)
        j = 2 % len(t)
        es.insert(len(es) // 2, FaultEdge([vs[j].id], spd(B.CDIM[B.KIND_OF[type(vs[j].pose)]], rnd, True), t[j].copy()))
        return es, vs, t
    return f


class RelPoseEdge(BaseEdge):
    """User-defined relative-pose edge (same error as EdgeOdometry) relying on numerical Jacobians."""

    def calc_error(self):
        return (self.estimate - (self.vertices[1].pose - self.vertices[0].pose)).to_compact()

    def is_valid(self):
        return self._is_valid() and len(self.vertices) == 2


class MidpointEdge(BaseEdge):
    """User-defined 3-vertex edge: the position of the third vertex is the midpoint of the first two (plus `estimate`)."""

    def calc_error(self):
        p = [np.array(v.pose.position) for v in self.vertices]
        return p[2] - 0.5 * (p[0] + p[1]) - self.estimate

    def is_valid(self):
        return self._is_valid() and len(self.vertices) == 3


def rand_quat(rnd, max_angle=math.pi):
    axis = np.array([rnd.gauss(0, 1) for _ in range(3)])
    axis /= np.linalg.norm(axis)
    a = rnd.uniform(-max_angle, max_angle)
    s = math.sin(a / 2)
    return [axis[0] * s, axis[1] * s, axis[2] * s, math.cos(a / 2)]


def rand_pose(kind, rnd, spread=3.0, max_angle=math.pi):
    t = [rnd.uniform(-spread, spread) for _ in range(B.DIM[kind])]
    if kind == 'SE2':
        return PoseSE2(t, rnd.uniform(-max_angle, max_angle))
    if kind == 'SE3':
        return PoseSE3(t, rand_quat(rnd, max_angle))
    return B.CLS_OF[kind](t)


def spd(n, rnd, cross=True):
    a = np.array([[rnd.uniform(-1, 1) for _ in range(n)] for _ in range(n)])
    m = a @ a.T + n * np.eye(n)
    if not cross:
        m = np.diag(np.diag(m))
    _spd_calls[0] += 1
    if cross and n > 1 and _spd_calls[0] % 3 == 0:
        m[0, 1] = np.nextafter(m[0, 1], np.inf)      # symmetric only up to rounding, as inv(cov) or R diag(w) R^T are
    return m


_spd_calls = [0]


def perturb(p, rnd, dt, dr):
    k = B.KIND_OF[type(p)]
    d = [rnd.uniform(-dt, dt) for _ in range(B.DIM[k])]
    if k == 'SE2':
        d.append(rnd.uniform(-dr, dr))
    elif k == 'SE3':
        d += [rnd.uniform(-dr, dr) / 2 for _ in range(3)]
    return p + np.array(d)


def make(kind, seed, n_poses=5, n_landmarks=2, closures=2, dt=0.2, dr=0.1, custom=False, fixed=(), noise=0.0, ids=None, cross=True,
         parallel=True, isolated_fixed=False, file_expressible=False):
    """A pose graph of `kind` in {R2,R3,SE2,SE3}: chain + loop closures (+ landmark edges with offsets, + custom edges).

    Returns (edges, vertices, truth) with fresh objects.  Measurements are the true relative motions (+ optional noise on the
    translation part), initial guesses are truth [+] perturbation.
    """
    rnd = random.Random(seed)
    pk = 'R2' if B.DIM[kind] == 2 else 'R3'
    truth = [rand_pose(kind, rnd) for _ in range(n_poses)]
    lms = [rand_pose(pk, rnd, 4.0) for _ in range(n_landmarks)]
    idmap = ids or (lambda j: j)
    verts = [Vertex(idmap(j), perturb(p, rnd, dt, dr) if j else p.copy(), fixed=(j in fixed)) for j, p in enumerate(truth)]
    lverts = [Vertex(idmap(n_poses + j), perturb(p, rnd, dt, dr), fixed=((n_poses + j) in fixed)) for j, p in enumerate(lms)]
    edges = []

    def odo(a, b, cls=EdgeOdometry):
        z = truth[b] - truth[a]
        if noise:
            z = z + np.array([rnd.gauss(0, noise) for _ in range(B.DIM[kind])] + [0.0] * (B.CDIM[kind] - B.DIM[kind]))
        return cls([idmap(a), idmap(b)], spd(B.CDIM[kind], rnd, cross), z)
    for j in range(n_poses - 1):
        edges.append(odo(j, j + 1) if j % 2 == 0 else odo(j + 1, j))      # vertices named in either order
    for c in range(closures):
        a, b = rnd.sample(range(n_poses), 2)
        edges.append(odo(a, b))
    if parallel and n_poses >= 2:
        edges.append(odo(0, 1))
        edges.append(odo(1, 0))
    for j, l in enumerate(lms):
        for a in rnd.sample(range(n_poses), min(2, n_poses)):
            off = rand_pose(kind, rnd, 0.5, 1.0)
            if file_expressible and kind in ('SE2', 'R2'):
                off = B.CLS_OF[kind].identity()          # (EDGE_SE2_XY has no offset field)
            z = (truth[a] + off).inverse + l
            # (file_expressible, SE(3): one offset parameter id per edge, to be entered in the graph's registry -- see registry_for)
            edges.append(EdgeLandmark([idmap(a), idmap(n_poses + j)], spd(B.DIM[kind], rnd, cross), z, off, offset_id=(len(edges) if file_expressible and kind == 'SE3' else 0)))
    if custom:
        a, b = 0, n_poses - 1
        d = float(np.linalg.norm(np.array(truth[a].position) - np.array(truth[b].position)))
        edges.append(RangeEdge([idmap(a), idmap(b)], np.array([[2.0]]), d))
        edges.append(PriorEdge([idmap(1 % n_poses)], spd(B.CDIM[kind], rnd, cross), truth[1 % n_poses].copy()))
        edges.append(RelPoseEdge([idmap(0), idmap(n_poses - 1)], spd(B.CDIM[kind], rnd, cross), truth[n_poses - 1] - truth[0]))
        if n_poses >= 3:
            p = [np.array(truth[j].position) for j in (0, 1, 2)]
            edges.append(MidpointEdge([idmap(0), idmap(1), idmap(2)], np.eye(B.DIM[kind]), p[2] - 0.5 * (p[0] + p[1])))
    allv = verts + lverts
    if isolated_fixed:
        allv.append(Vertex(idmap(n_poses + n_landmarks + 5), rand_pose(kind, rnd), fixed=True))
    return edges, allv, truth + lms


def mixed(seed, **kw):
    """Two components of different dimensionality in one graph (SE2 + R2 landmarks, SE3 + R3 landmarks); ids disjoint."""
    e1, v1, t1 = make('SE2', seed, ids=lambda j: 100 + j, **kw)
    e2, v2, t2 = make('SE3', seed + 1, ids=lambda j: 200 + j, **kw)
    v2[0].fixed = True
    # interleave the vertex lists
    vs = []
    for a, b in zip(v1, v2):
        vs += [a, b]
    vs += v1[len(v2):] + v2[len(v1):]
    return e1 + e2, vs, t1 + t2


def aliased(seed):
    """A graph in which the user shares pose objects: a prior whose measurement IS the vertex's initial pose object, and two
    parallel edges sharing one measurement object and one information matrix."""
    es, vs, t = make('SE2', seed, custom=False)
    es.append(PriorEdge([vs[1].id], np.eye(3) * 0.5, vs[1].pose))
    z = es[0].estimate
    es.append(EdgeOdometry(list(es[0].vertex_ids), es[0].information, z))
    return es, vs, t


def shared_init(kind):
    def f(seed):
        """Every vertex of a kind is initialised with the SAME pose object (a common idiom: one identity/origin object as initial guess for all);
        the first pose vertex and one landmark are fixed."""
        es, vs, t = make(kind, seed, n_poses=4, n_landmarks=2, closures=1, parallel=False)
        first = {}
        for v in vs:
            key = type(v.pose)
            if key not in first:
                first[key] = v.pose
            v.pose = first[key]
        vs[0].fixed = True
        vs[-1].fixed = True
        return es, vs, t
    return f


def lonely(kind):
    def f(seed):
        """A well-posed graph plus one FREE vertex that no edge names: its rows of the Hessian are exactly zero (exactly singular solve)."""
        es, vs, t = make(kind, seed, n_poses=4, n_landmarks=1, closures=1)
        vs.insert(2, Vertex(777, rand_pose(kind, random.Random(seed + 1))))
        return es, vs, t
    return f


def registry_for(edges):
    """The offset-parameter registry (Graph._g2o_params) that makes the SE(3) landmark edges of `edges` expressible in a .g2o file."""
    from graphslam.g2o_parameters import G2OParameterSE3Offset
    reg = {}
    for e in edges:
        if type(e) is EdgeLandmark and isinstance(e.offset, PoseSE3):
            key = ('PARAMS_SE3OFFSET', e.offset_id)
            reg[key] = G2OParameterSE3Offset(key, e.offset)
    return reg


class WeightedOdometry(EdgeOdometry):
    """A user subclass that overrides ONLY the cost: every chi^2 the library reports for a graph must be the sum of its edges' own calc_chi2()."""

    def calc_chi2(self):
        return 2.5 * super().calc_chi2() + 0.125


def weighted(kind):
    def f(seed):
        es, vs, truth = make(kind, seed)
        for j, e in enumerate(es):
            if type(e) is EdgeOdometry and j % 2 == 0:
                e.__class__ = WeightedOdometry
        return es, vs, truth
    return f


def rough(seed):
    """SE(3) graph whose vertex quaternions are NOT unit (as after loading a file written with a few digits), some with w < 0; two of them fixed."""
    es, vs, truth = make('SE3', seed, fixed=(1, 3))
    for j, v in enumerate(vs):
        if len(v.pose) == 7:
            v.pose[3:] = v.pose[3:] * [1.0 + 3e-4, -(1.0 - 2e-4), 1.0 + 5e-5, -1.0, 1.0 - 4e-4][j % 5]
    return es, vs, truth


class RimEdge(BaseEdge):
    """User-defined edge whose error has a DOMAIN: sqrt(R^2 - d^2), d = distance of the two positions.  At d = R it is 0; a hair further out
    it is NaN.  (numerical differentiation then yields NaN columns -- and must still put the pose back)"""

    def calc_error(self):
        d = np.linalg.norm(np.array(self.vertices[0].pose.position) - np.array(self.vertices[1].pose.position))
        with np.errstate(invalid='ignore'):
            return np.array([np.sqrt(self.estimate ** 2 - d ** 2)])

    def is_valid(self):
        return self._is_valid() and len(self.vertices) == 2


def rim(seed):
    es, vs, truth = make('SE2', seed, fixed=(2,))
    d = float(np.linalg.norm(np.array(vs[0].pose.position) - np.array(vs[3].pose.position)))
    es.append(RimEdge([vs[0].id, vs[3].id], np.array([[2.0]]), d))          # exactly on the rim of its domain
    return es, vs, truth


class InPlacePrior(BaseEdge):
    """User-defined unary edge whose error function works IN PLACE on what the pose accessors hand out (to_compact(), position): these are the
    caller's own arrays -- arithmetic on them must not reach the pose."""

    def calc_error(self):
        e = self.vertices[0].pose.to_compact()
        e -= self.estimate
        p = self.vertices[0].pose.position
        p *= 0.0
        return e

    def is_valid(self):
        return self._is_valid() and len(self.vertices) == 1


def inplace(kind):
    def f(seed):
        es, vs, truth = make(kind, seed, fixed=(1, 2))
        for j in (1, 2, 3):
            es.append(InPlacePrior([vs[j].id], np.eye(B.CDIM[kind]), np.asarray(truth[j].to_compact()) + 0.01))
        lm = [v for v in vs if len(v.pose) == B.DIM[kind]][0]
        lm.fixed = True
        es.append(InPlacePrior([lm.id], np.eye(B.DIM[kind]), np.asarray(lm.pose.to_compact()) + 0.02))
        return es, vs, truth
    return f


def noid(seed):
    """SE(3) landmark edges created without the optional offset id."""
    es, vs, truth = make('SE3', seed)
    for e in es:
        if hasattr(e, 'offset'):
            e.offset_id = None
    return es, vs, truth


def hard(seed):
    """SE(2) graph in which one information matrix has an infinite entry (a "hard" constraint component) and another one a NaN: chi^2 and
    the optimizer are useless there, but every query must still leave the stored numbers alone."""
    es, vs, truth = make('SE2', seed, fixed=(1,))
    es[2].information = es[2].information.copy()
    es[2].information[0, 0] = np.inf
    es[4].information = es[4].information.copy()
    es[4].information[1, 1] = np.nan
    return es, vs, truth


def negated(seed):
    """SE(3) graph in which every other measurement, vertex and offset quaternion is stored with a NEGATIVE scalar part (the same rotations)."""
    es, vs, truth = make('SE3', seed)
    for j, e in enumerate(es):
        if len(np.asarray(e.estimate)) == 7 and (j % 2 == 0) == (e.estimate[6] > 0):
            e.estimate[3:] = -e.estimate[3:]
        if getattr(e, 'offset', None) is not None and len(np.asarray(e.offset)) == 7 and (j % 2 == 1) == (e.offset[6] > 0):
            e.offset[3:] = -e.offset[3:]
    for j, v in enumerate(vs):
        if len(v.pose) == 7 and (j % 2 == 0) == (v.pose[6] > 0):
            v.pose[3:] = -v.pose[3:]
    return es, vs, truth


TEMPLATES = {
    'se2inplace': inplace('SE2'),
    'se3inplace': inplace('SE3'),
    'se3noid': noid,
    'se2hard': hard,
    'se2rim': rim,
    'se3neg': negated,
    'se3rough': rough,
    'se2desc': lambda s: make('SE2', s, ids=lambda j: 100 - 7 * j),                    # the first listed vertex does NOT carry the smallest id
    'se3desc': lambda s: make('SE3', s, ids=lambda j: (-1) ** j * (3 * j + 2), fixed=(2,)),
    'se2pair': lambda s: make('SE2', s, n_poses=2, n_landmarks=0, closures=0, fixed=(0,)),
    # graphs a .g2o file can express (identity SE(2) offsets; SE(3) offsets registered as parameters by the session, names ending in 'reg')
    'se2plain': lambda s: make('SE2', s, file_expressible=True, fixed=(2,)),
    'se2plainc': lambda s: make('SE2', s, file_expressible=True, custom=True, fixed=(1, 3)),
    'se3reg': lambda s: make('SE3', s, file_expressible=True, fixed=(1,)),
    'se3regc': lambda s: make('SE3', s, file_expressible=True, custom=True, n_poses=4, fixed=(2,)),
    # file-expressible graphs whose ids are NOT list positions (negative, sparse, huge, descending)
    'se2plainids': lambda s: make('SE2', s, file_expressible=True, fixed=(2,), ids=lambda j: [-7, 1000000007, 42, -123456, 900, 5, 77, -1, 31337, 64, 2 ** 40, 13][j % 12] + 100000 * (j // 12)),
    'se3idsreg': lambda s: make('SE3', s, file_expressible=True, fixed=(1,), ids=lambda j: 500 - 9 * j),
    'se2fault': faulty('SE2', fixed=(3,)),
    'se3fault': faulty('SE3', n_poses=4, fixed=(2,)),
    'r2fault': faulty('R2', n_landmarks=1, fixed=(1, 4)),
    'se2weighted': weighted('SE2'),
    'se2huge': lambda s: make('SE2', s, n_poses=150, n_landmarks=10, closures=40),
    'se2big': lambda s: make('SE2', s, n_poses=24, n_landmarks=4, closures=8),
    'se3big': lambda s: make('SE3', s, n_poses=16, n_landmarks=3, closures=5),
    'r2lonely': lonely('R2'),
    'se3lonely': lonely('SE3'),
    'se2shared': shared_init('SE2'),
    'r3shared': shared_init('R3'),
    'se2alias': aliased,
    'r2': lambda s: make('R2', s, n_landmarks=1, custom=False),
    'r3': lambda s: make('R3', s, n_landmarks=1),
    'se2': lambda s: make('SE2', s),
    'se3': lambda s: make('SE3', s),
    'se2c': lambda s: make('SE2', s, custom=True),
    'se3c': lambda s: make('SE3', s, custom=True, n_poses=4),
    'r2c': lambda s: make('R2', s, custom=True),
    'mixed': lambda s: mixed(s, n_poses=3, n_landmarks=1, closures=1),
    'se2fix': lambda s: make('SE2', s, fixed=(2, 5)),
    'se3fix': lambda s: make('SE3', s, fixed=(1, 6), isolated_fixed=True),
    'se2far': lambda s: make('SE2', s, dt=2.5, dr=1.5),            # far from the optimum: chi^2 may increase
    'r3fixlm': lambda s: make('R3', s, n_landmarks=2, fixed=(0, 5, 6)),                 # fixed landmarks
    'se2allfix': lambda s: make('SE2', s, n_poses=3, n_landmarks=1, closures=0, fixed=(0, 1, 2, 3)),
    'r2iso': lambda s: make('R2', s, n_landmarks=1, fixed=(1,), isolated_fixed=True),    # a fixed vertex without incident edge
    'se3far': lambda s: make('SE3', s, dt=3.0, dr=2.0, fixed=(2,)),                       # diverging runs with a fixed vertex
}
