"""C17: equals is a sound, total tolerance comparison (verdict table EqModel, enumerated exhaustively by TLC)."""
import numpy as np

from graphslam.edge.base_edge import BaseEdge
from graphslam.edge.edge_landmark import EdgeLandmark
from graphslam.edge.edge_odometry import EdgeOdometry
from graphslam.graph import Graph
from graphslam.vertex import Vertex

from .. import build as B
from .. import tlc, tlaval

NUMS = [1.5, -2.0, 0.5, 0.25, -0.75, 3.0, 1.25]


class DistEdge(BaseEdge):
    """A user-defined edge: distance between two positions (float or 1-element array measurement)."""

    def calc_error(self):
        d = np.linalg.norm(self.vertices[0].pose.position - self.vertices[1].pose.position)
        return np.array([d]) - np.atleast_1d(self.estimate)

    def is_valid(self):
        return True


class OtherEdge(DistEdge):
    """A second user-defined class."""


MAG = [1.0]          # magnitude of the positions of every object built below (the comparison is RELATIVE to the norm of the compared part)


def mkpose(kind, shift=0.0):
    n = B.FDIM[kind]
    v = [x + shift for x in NUMS[:n]]
    v = [x * MAG[0] for x in v[:B.DIM[kind]]] + v[B.DIM[kind]:]
    if kind == 'SE2':
        return B.CLS_OF[kind](v[:2], v[2])
    if kind == 'SE3':
        q = np.array([0.5, -0.5, 0.5, 0.5])
        return B.CLS_OF[kind](v[:3], q)
    return B.CLS_OF[kind](v)


def mkinfo(n):
    m = np.eye(n) * 2.0
    for i in range(n):
        for j in range(n):
            if i != j:
                m[i, j] = 0.125 * (1 + (i + j) % 3)
    return m


def point_kind(k):
    return 'R2' if B.DIM[k] == 2 else 'R3'


def make(cls):
    cat, k = cls
    if cat == 'pose':
        return mkpose(k)
    if cat == 'vertex':
        return Vertex(7, mkpose(k))
    if cat == 'odo':
        vs = [Vertex(3, mkpose(k)), Vertex(5, mkpose(k, 1.0))]
        return EdgeOdometry([3, 5], mkinfo(B.CDIM[k]), mkpose(k, 0.5), vs)
    if cat == 'lm':
        k2 = point_kind(k)
        vs = [Vertex(3, mkpose(k)), Vertex(5, mkpose(k2, 1.0))]
        return EdgeLandmark([3, 5], mkinfo(B.CDIM[k2]), mkpose(k2, 0.5), mkpose(k, 0.25), offset_id=4, vertices=vs)
    if cat == 'custom':
        vs = [Vertex(3, mkpose('SE2')), Vertex(5, mkpose('SE2', 1.0))]
        est = 2.5 if k == 'float' else np.array([2.5])
        return DistEdge([3, 5], mkinfo(1), est, vs)
    if cat == 'graph':
        # (a landmark vertex sits BETWEEN the poses in the list; no edge names it or vertex 9)
        vs = [Vertex(1, mkpose(k)), Vertex(12, mkpose(point_kind(k), 3.0)), Vertex(2, mkpose(k, 1.0)), Vertex(9, mkpose(k, 2.0))]
        vs[3].pose[:B.DIM[k]] *= 5000.0          # one far-away vertex: a comparison relative to the WHOLE graph would hide differences of the others
        # a nearly consistent graph (residuals ~1e-3): its chi^2 reacts strongly to perturbations far below the tolerance
        small = np.full(B.CDIM[k], 1e-3)
        z12 = (vs[2].pose - vs[0].pose) + small
        z21 = (vs[0].pose - vs[2].pose) + small
        es = [EdgeOdometry([1, 2], mkinfo(B.CDIM[k]), z12), EdgeOdometry([2, 1], mkinfo(B.CDIM[k]) * 3.0, z21)]
        return Graph(es, vs)
    raise ValueError(cls)


def part_array(obj, cat, part):
    if cat == 'pose':
        return obj
    if cat == 'vertex':
        return obj.pose
    if cat == 'graph':
        return {'vpose': obj._vertices[2].pose, 'einfo': obj._edges[1].information, 'eest': obj._edges[0].estimate}[part]
    return {'info': obj.information, 'est': obj.estimate, 'off': getattr(obj, 'offset', None)}[part]


def other_kind(k):
    return {'R2': 'R3', 'R3': 'SE2', 'SE2': 'R3', 'SE3': 'SE2'}[k]     # R3 <-> SE2 have the same number of stored components


def mutate(cls, m):
    """Return the mutated copy y of make(cls)."""
    cat, k = cls
    mut = m['mut']
    y = make(cls)
    if mut == 'copy':
        return y
    if mut == 'other':
        return make((cat, m['part']))
    if mut == 'idform':
        # the same ids in another container: a tuple on one edge, an integer array on the other
        for j, e in enumerate([y] if cat != 'graph' else y._edges):
            e.vertex_ids = tuple(e.vertex_ids) if j % 2 == 0 else np.array(e.vertex_ids, dtype=np.int64)
        return y
    if mut == 'perturb':
        tol = float(m['tol'])
        if cat == 'custom' and m['part'] == 'est' and k == 'float':
            scale = max(abs(y.estimate), tol)
            y.estimate = y.estimate + 10.0 ** m['e'] * tol * scale
            return y
        arr = part_array(y, cat, m['part'])
        flat = np.asarray(arr).reshape(-1)
        scale = max(float(np.linalg.norm(flat)), tol)
        idx = {'first': 0, 'mid': len(flat) // 2, 'last': len(flat) - 1}[m['pos']] if m['pos'] in ('first', 'mid', 'last') else int(m['pos']) % len(flat)
        view = np.asarray(arr)
        view.reshape(-1)[idx] += 10.0 ** m['e'] * tol * scale
        return y
    if cat == 'pose' and mut == 'kind':
        return mkpose(other_kind(k))
    if cat == 'vertex':
        if mut == 'id':
            y.id = 8
        elif mut == 'kind':
            y.pose = mkpose(other_kind(k))
        return y
    if cat in ('odo', 'lm', 'custom'):
        if mut == 'vid':
            y.vertex_ids = [3, 6]
        elif mut == 'shortvids':
            # an edge of the same n-ary class naming a PREFIX of the ids (and bound to that vertex only)
            y.vertex_ids = [3]
            y.vertices = y.vertices[:1]
        elif mut == 'swapvids':
            y.vertex_ids = [5, 3]
        elif mut == 'estkind':
            y.estimate = mkpose(other_kind(B.KIND_OF[type(y.estimate)]), 0.5)
        elif mut == 'esttype':
            y.estimate = mkpose('R2', 0.5)
        elif mut == 'infoshape':
            n = y.information.shape[0]
            y.information = mkinfo(n + 1)
        elif mut == 'class':
            if cat == 'odo':
                k2 = point_kind(k)
                return EdgeLandmark(list(y.vertex_ids), y.information, y.estimate, mkpose(k, 0.25), offset_id=4, vertices=y.vertices)
            if cat == 'lm':
                return EdgeOdometry(list(y.vertex_ids), y.information, y.estimate, y.vertices)
            return OtherEdge(list(y.vertex_ids), y.information, y.estimate, y.vertices)
        elif mut == 'offkind':
            y.offset = mkpose(other_kind(k), 0.25)
        elif mut == 'offid':
            y.offset_id = 5
        elif mut == 'offidnone':
            y.offset_id = None
        return y
    if cat == 'graph':
        vs, es = y._vertices, y._edges
        if mut == 'dropedge':
            return Graph(es[:1], vs)
        if mut == 'dropvertex':
            return Graph(es, vs[:3])
        if mut == 'addvertex':
            return Graph(es, vs + [Vertex(11, mkpose(k))])
        if mut == 'swapvertices':
            return Graph(es, [vs[2], vs[1], vs[0], vs[3]])
        if mut == 'movelandmark':
            byid = {v.id: v for v in vs}
            return Graph(es, [byid[1], byid[2], byid[12], byid[9]])          # (x lists 1, 12, 2, 9) only the place of the landmark among the poses differs
        if mut == 'swapedges':
            return Graph([es[1], es[0]], vs)
        if mut == 'vid':
            vs[3].id = 10
            return y
        if mut == 'vkind':
            vs[3].pose = mkpose(other_kind(k), 2.0)
            return Graph(es, vs)
        if mut == 'eclass':
            k2 = point_kind(k)
            if B.KIND_OF[type(vs[3].pose)] != k2:
                vs[3].pose = mkpose(k2, 2.0)
                x_needs = True
            e = EdgeLandmark([1, 9], mkinfo(B.CDIM[k2]), mkpose(k2, 0.5), mkpose(k, 0.25), offset_id=0)
            return Graph([es[0], e], vs)
    raise ValueError((cls, m))


def check(run):
    if run.tier == 'thorough':
        # every exponent from 1e-12 to 1e3 times the tolerance, and many more component positions
        mc = ('---- MODULE MC_C17 ----\nEXTENDS EqModel\nExpT == -12..3\nPosT == {"first", "mid", "last"} \\cup {%s}\n====\n'
              % ', '.join('"%d"' % i for i in range(0, 49, 3)))
        cfg = 'SPECIFICATION Spec\nCONSTANTS\n Exponents <- ExpT\n Positions <- PosT\nINVARIANT Total\n'
        res = tlc.run('MC_C17', cfg, mc_text=mc, dump=True, timeout=1800)
    else:
        cfg = 'SPECIFICATION Spec\nINVARIANT Total\n'
        res = tlc.run('EqModel', cfg, dump=True, timeout=1800)
    try:
        if res.violation:
            raise tlc.TLCError('model invariant %s violated' % res.violation)
        run.add_tlc(res, 'EqModel')
        counts = {'T': 0, 'F': 0, 'either': 0}
        for st in tlaval.iter_dump(res.dump):
            if st['dir'] == 'none':
                continue
            counts[st['verdict']] += 1
            # Scale dimension: the same case with positions of ordinary size, of map / UTM size (1e6) and tiny (1e-3); the verdict is stated
            # relative to the norm of the compared part, so it is the same at every scale
            for mag in (1.0, 1e6, 1e-3):
                MAG[0] = mag
                try:
                    _one(run, st['case'], st['dir'], st['verdict'])
                finally:
                    MAG[0] = 1.0
        run.notes['expected_verdicts'] = counts
        if min(counts.values()) == 0:
            raise tlc.TLCError('vacuity guard: verdict counts %r' % counts)
    finally:
        res.cleanup()
    export_histories(run)
    run.exhaustive = True
    run.rule = ('TLC enumerates (object class: 4 pose kinds, vertex, odometry / landmark / custom edge, graph) x (mutation: copy, single-component '
                'perturbation 10^e*tol*scale in every numeric part at first/middle/last position, every structural difference, every other class of the '
                'same category) x tol in {1e-9,1e-6,1e-3} x both directions; each state replayed on real objects; non-trivial = every distinct case')
    run.assumptions = ['perturbation magnitudes 10^e with e in {-12,-9,-6,-3} (far below), {3,4,6} (far above), {-1,0,1} (band: either answer accepted)',
                       'pairs are drawn within one category (pose/pose, vertex/vertex, edge/edge, graph/graph)']


def export_histories(run):
    """EqModel: a graph and its copy are equal (verdict T for mutation `copy`, both directions).  Here ONE of the two has a history of pure
    calls - exported to a file, evaluated, plotted, optimised for zero effective steps on a copy - before the comparison: what equals() reports is a
    function of the compared content, which none of these calls changes."""
    import copy
    import os
    import tempfile
    from graphslam.g2o_parameters import G2OParameterSE3Offset

    def build(k):
        k2 = point_kind(k)
        vs = [Vertex(-4, mkpose(k)), Vertex(10 ** 9, mkpose(k, 1.0)), Vertex(6, mkpose(k2, 2.0))]
        es = [EdgeOdometry([-4, 10 ** 9], mkinfo(B.CDIM[k]), mkpose(k, 0.5))]
        off = mkpose(k, 0.25) if k == 'SE3' else type(mkpose(k)).identity()
        es.append(EdgeLandmark([10 ** 9, 6], mkinfo(B.CDIM[k2]), mkpose(k2, 0.5), off, offset_id=3))
        return Graph(es, vs)
    n = 0
    for k in ('SE2', 'SE3'):
        for hist in ('to_g2o', 'to_g2o-registered', 'calc_chi2', 'plot', 'edge-queries', 'to_g2o-twice'):
            x, y = build(k), build(k)
            key = dict(cat='graph', kind=k, part='export-history', history=hist)
            try:
                first = (bool(x.equals(y, 1e-6)), bool(y.equals(x, 1e-6)))
                if hist == 'to_g2o-registered' and k == 'SE3':
                    for g in (x, y):
                        g._g2o_params = {('PARAMS_SE3OFFSET', 3): G2OParameterSE3Offset(('PARAMS_SE3OFFSET', 3), mkpose(k, 0.25))}
                if hist.startswith('to_g2o'):
                    for _ in range(2 if hist.endswith('twice') else 1):
                        fd, path = tempfile.mkstemp(suffix='.g2o')
                        os.close(fd)
                        try:
                            x.to_g2o(path)
                        except Exception:  # noqa  (a refusal to export is not the subject here: only what equals() says afterwards)
                            pass
                        finally:
                            os.unlink(path)
                elif hist == 'calc_chi2':
                    x.calc_chi2()
                elif hist == 'plot':
                    import matplotlib.pyplot as plt
                    try:
                        x.plot()
                    finally:
                        plt.close('all')
                else:
                    for e in x._edges:
                        e.calc_error(); e.calc_jacobians(); e.calc_chi2_gradient_hessian(); e.to_g2o()      # noqa
                second = (bool(x.equals(y, 1e-6)), bool(y.equals(x, 1e-6)))
            except Exception as ex:  # noqa
                run.violation(dict(key, outcome='raised'), 'comparing a graph with its copy raised %r (history of the first graph: %s)' % (ex, hist), dict(kind=k, history=hist))
                continue
            n += 1
            run.count(key=('export-history', k, hist), nontrivial=True)
            if first != (True, True) or second != (True, True):
                run.violation(dict(key, outcome='wrong-False'), 'a graph and its copy: equals returns %r before and %r after the first one was %s (specification: T in both '
                              'directions; none of these calls changes the compared content)' % (first, second, hist), dict(kind=k, history=hist))
    run.notes['copies_compared_after_pure_calls'] = n


def snap(obj):
    """Bytes of every number an object holds (poses, measurements, information, offsets, the poses of attached vertices): a comparison is a
    pure question -- it must not write into either operand."""
    out = []

    def add(a):
        if a is not None:
            out.append(np.asarray(a, dtype=float).tobytes())
    if isinstance(obj, Graph):
        for v in obj._vertices:
            add(v.pose)
        for e in obj._edges:
            out.append(snap(e))
    elif isinstance(obj, Vertex):
        add(obj.pose)
    elif hasattr(obj, 'information'):
        add(obj.information)
        add(obj.estimate)
        add(getattr(obj, 'offset', None))
        for v in (obj.vertices or []):
            add(v.pose)
    else:
        add(obj)
    return b'|'.join(o if isinstance(o, bytes) else bytes(o) for o in out)


def _one(run, m, dirn, expected):
    cls = tuple(m['cls'])
    key = dict(cat=cls[0], kind=cls[1], mut=m['mut'], part=m['part'], magnitude=MAG[0])
    run.replayed += 1
    run.count(key=(cls, m['mut'], m['part'], m['pos'], m['e'], m['tol'], dirn, MAG[0]))
    try:
        x = make(cls)
        y = mutate(cls, m)
    except AssertionError:
        run.skip('mutated graph not constructible')
        return
    tol = float(m['tol'])
    if cls[0] == 'vertex' and run.replayed % 2 == 1:
        # one of the two vertices belongs to a Graph (it carries the bookkeeping of that graph), the other is free-standing
        Graph([], [Vertex(99, mkpose('SE2')), x])
    if run.replayed % 2 == 0 and cls[0] in ('graph', 'odo', 'lm', 'custom'):
        # History dimension: both objects have been evaluated before they are compared (a comparison must depend on the compared content
        # only, not on cached results of earlier calls)
        for o in (x, y):
            try:
                o.calc_chi2()
            except Exception:  # noqa
                pass
        run.notes['compared_after_evaluation'] = run.notes.get('compared_after_evaluation', 0) + 1
    before = (snap(x), snap(y))
    try:
        from ..core import library_debug_logging
        with library_debug_logging(run.replayed % 3 == 0):          # (every third comparison with the library's loggers at DEBUG level)
            got = x.equals(y, tol) if dirn == 'xy' else y.equals(x, tol)
    except Exception as ex:  # noqa
        run.violation(dict(key, outcome='raised'), 'equals raised %r | case %r direction %s' % (ex, m, dirn), dict(case=m, direction=dirn))
        return
    got = bool(got)
    if (snap(x), snap(y)) != before:
        run.violation(dict(key, outcome='operand-modified'), 'equals changed one of the compared objects | case %r direction %s' % (m, dirn), dict(case=m, direction=dirn))
        return
    if expected == 'either':
        return
    if got != (expected == 'T'):
        run.violation(dict(key, outcome='wrong-' + str(got)), 'equals returned %s, specification says %s | case %r direction %s' % (got, expected, m, dirn),
                      dict(case=m, direction=dirn))
    if run.replayed % 701 == 1:
        run.sample(dict(case=m, direction=dirn, expected=expected, code=got))


def replay(run, rep):
    c = rep['case']
    if 'case' not in c:
        export_histories(run)          # (a violation of the export-history part: that part is re-run as a whole)
        run.states = run.transitions = 1
        return
    exp = 'T' if c['case']['mut'] == 'copy' else 'F'
    if c['case']['mut'] == 'perturb':
        exp = 'T' if c['case']['e'] <= -3 else ('F' if c['case']['e'] >= 3 else 'either')
    _one(run, c['case'], c['direction'], exp)
    run.states = run.transitions = 1
