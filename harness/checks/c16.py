"""C16: custom edges with numerical Jacobians - forward-difference Jacobians vs exact ones, and same optimum as analytic twins."""
import contextlib
import copy
import io
import math
import random

import numpy as np

from graphslam.edge.edge_odometry import EdgeOdometry
from graphslam.graph import Graph

from .. import build as B
from .. import edgecases as EC
from .. import graphcases as GC
from .. import graphs
from . import c03
from ..core import library_debug_logging


class ScaledRange(graphs.RangeEdge):
    """The range edge in other units: error = factor * (distance) - estimate."""
    factor = 1.0

    def calc_error(self):
        return np.array([self.factor * np.linalg.norm(np.array(self.vertices[0].pose.position) - np.array(self.vertices[1].pose.position)) - self.estimate])


def near_pi_headings(run):
    """Off the lattice (L1): SE(2) vertices whose HEADING is within 1e-6 of +-pi (the perturbed heading of the forward difference wraps around)
    while the relative-pose error is nowhere near its own wrap point.  Reference: the analytic Jacobians of the built-in odometry edge, which has
    the same error function (they are decided by C01)."""
    from graphslam.pose.se2 import PoseSE2
    from graphslam.vertex import Vertex
    rnd = random.Random(run.seed + 1601)
    n = 0
    for th1 in (math.pi - 5e-7, -math.pi + 3e-7, math.pi - 1e-9, math.nextafter(math.pi, 0.0), 3.0):
        for th2 in (0.4, math.pi - 2e-7, -2.0):
            v1 = Vertex(1, PoseSE2([rnd.uniform(-5, 5), rnd.uniform(-5, 5)], th1))
            v2 = Vertex(2, PoseSE2([rnd.uniform(-5, 5), rnd.uniform(-5, 5)], th2))
            z = (v2.pose - v1.pose) + PoseSE2([0.05, -0.02], 0.1)
            info = np.array([[2.0, 0.5, 0.0], [0.5, 3.0, 0.25], [0.0, 0.25, 1.0]])
            num = graphs.RelPoseEdge([1, 2], info, z, [v1, v2])
            ana = EdgeOdometry([1, 2], info, z, [v1, v2])
            before = [np.array(v.pose) for v in (v1, v2)]
            try:
                Jn, Ja = num.calc_jacobians(), ana.calc_jacobians()
            except Exception as ex:  # noqa
                run.violation(dict(part='jacobian', family='relpose', near_pi_heading=True, outcome='raised'), 'calc_jacobians raised %r' % (ex,), dict(th1=th1, th2=th2))
                continue
            n += 1
            run.count(key=('near-pi-heading', th1, th2), nontrivial=True)
            dv = max(float(np.max(np.abs(np.asarray(a, dtype=float) - np.asarray(b, dtype=float)))) for a, b in zip(Jn, Ja))
            if dv > 2e-5 * 6 or not all(np.array_equal(np.array(v.pose), b) for v, b in zip((v1, v2), before)):
                run.violation(dict(part='jacobian', family='relpose', near_pi_heading=True), 'vertex headings %r / %r: numerical Jacobian deviates from the analytic one of the same error function by %.3g (or a pose was not restored)' % (
                    th1, th2, dv), dict(th1=th1, th2=th2))
    run.notes['near_pi_heading_cases'] = n


def gen(tier, seed):
    rnd = random.Random(seed * 733 + 19)
    thorough = tier == 'thorough'
    cases = []
    for kind in ('R2', 'R3', 'SE2', 'SE3'):
        for n_poses in (2, 3, 4):
            for _ in range(30 if thorough else 3):
                c = GC.gen_graph(rnd, kind, n_poses, rnd.choice([1, 2]), 0, custom=True, fixed_mode='first', fix_first=True, parallel_p=0.0)
                if rnd.random() < 0.3:      # large translations: the truncation error of the forward difference grows with the scale
                    sh = rnd.choice([(1000, -2000, 500), (-4000, 100, 3000)])[:B.DIM[kind]]
                    for v in c['verts']:
                        v['t'] = [a + b for a, b in zip(v['t'], sh)]
                cases.append(c)
    # aliasing: a prior whose measurement IS the vertex's own pose object; a relative-pose edge between two vertices sharing ONE pose object
    for kind in ('R2', 'SE2', 'SE3', 'R3'):
        for _ in range(6 if thorough else 2):
            c = GC.gen_graph(rnd, kind, 3, 1, 0, custom=False, fixed_mode='first', fix_first=True, parallel_p=0.0)
            a = rnd.randrange(3)
            W = rnd.choice(GC.W_SPD)(B.CDIM[kind])
            c['edges'].append(dict(cls='prior', vs=[a + 1], tz=list(c['verts'][a]['t']), rz=list(c['verts'][a]['r']), toff=[], roff=[], W=W))
            c['alias_prior'] = len(c['edges']) - 1
            b = (a + 1) % 3
            c['verts'][b]['t'] = list(c['verts'][a]['t'])
            c['verts'][b]['r'] = list(c['verts'][a]['r'])
            TT = EC.T2 if B.DIM[kind] == 2 else EC.T3
            c['edges'].append(dict(cls='relpose', vs=[a + 1, b + 1], tz=list(rnd.choice(TT)), rz=list(GC.rots_for(kind, rnd, False)), toff=[], roff=[], W=W))
            c['alias_pair'] = [a, b]
            cases.append(c)
    # range edges between far, axis-aligned points: a partial derivative is exactly 0.0 there (and is not after the points have moved)
    for kind in ('R2', 'SE2', 'R3'):
        for sep in (200, 1000):
            c = GC.gen_graph(rnd, kind, 2, 0, 0, custom=False, fixed_mode='first', fix_first=True, parallel_p=0.0)
            d = B.DIM[kind]
            c['verts'][1]['t'] = [c['verts'][0]['t'][0] + sep] + list(c['verts'][0]['t'][1:])
            c['edges'].append(dict(cls='range', vs=[1, 2], tz=[sep - 3], rz=[], toff=[], roff=[], W=[[2]]))
            cases.append(c)
    return cases


def rotated_state(c):
    """A second lattice state of the same graph: every position rotated by 90 degrees about the (last) axis.  Separations are preserved,
    axis-aligned pairs change axis."""
    c2 = dict(c, verts=[dict(v) for v in c['verts']])
    for v in c2['verts']:
        t = v['t']
        v['t'] = [-t[1], t[0]] + list(t[2:])
    return c2


def check(run):
    cases = gen(run.tier, run.seed)
    meta = [{k: c.pop(k) for k in ('alias_prior', 'alias_pair') if k in c} for c in cases]
    allc = []
    for c in cases:
        allc += [c, rotated_state(c)]
    pairs_all = c03.evaluate(run, allc, 'MC_C16', conventions=('canon',))
    idx = {repr(c): o for c, o in pairs_all}
    pairs = [(c, idx[repr(c)], idx.get(repr(rotated_state(c))), m) for c, m in zip(cases, meta) if repr(c) in idx]
    fam = {'prior': 0, 'relpose': 0, 'range': 0, 'mid': 0}
    states = []
    for c, oa, ob, m in pairs:
        states.append((c, oa, m, None))
        if ob is not None:
            states.append((rotated_state(c), ob, m, 'moved-in-place'))
    g = None
    steps = 0
    for c, obs_list, m, hist in states:
        obs = obs_list[0]
        run.replayed += 1
        if hist == 'moved-in-place' and g is not None:
            # History dimension: the SAME graph / edge objects are evaluated again after every vertex has been moved in place to a second state
            for v, cv in zip(g._vertices, c['verts']):
                v.pose[:B.DIM[cv['k']]] = [float(x) for x in cv['t']]
            run.notes['second_state_evaluations'] = run.notes.get('second_state_evaluations', 0) + 1
        else:
            g = GC.build_graph(c)
            if 'alias_prior' in m:
                e = g._edges[m['alias_prior']]
                e.estimate = e.vertices[0].pose                       # the measurement IS the vertex's pose object
                a, b = m['alias_pair']
                g._vertices[b].pose = g._vertices[a].pose             # two vertices share one pose object
                run.notes['aliased_cases'] = run.notes.get('aliased_cases', 0) + 1
        S = max([abs(x) for v in c['verts'] for x in v['t']] + [1])
        # the fixed flags matter to the optimizer only: the Jacobians an edge reports are the derivatives whatever the flags say
        for j, v in enumerate(g._vertices):
            v.fixed = [(j % 2 == 0), (j % 2 == 1), True, False][run.replayed % 4]
        # every second graph: the Jacobians of ALL its edges are requested first and compared afterwards (a result handed out earlier must not
        # be affected by later calls on other edges)
        collect_first = run.replayed % 2 == 0
        held = {}
        if collect_first:
            for n, (e_case, e) in enumerate(zip(c['edges'], g._edges)):
                if e_case['cls'] in fam:
                    try:
                        with library_debug_logging(run.replayed % 4 < 2):
                            held[n] = e.calc_jacobians()
                    except Exception:  # noqa  (reported below, where the call is repeated)
                        pass
            run.notes['graphs_with_jacobians_collected_first'] = run.notes.get('graphs_with_jacobians_collected_first', 0) + 1
        for n, (e_case, e) in enumerate(zip(c['edges'], g._edges)):
            if e_case['cls'] not in fam:
                continue
            # excluded set: an SE(2) angular error within 1e-3 of +-pi (a forward difference across the wrap point is off by 2*pi/eps)
            near_wrap = False
            for x in obs['errs'][n]:
                if isinstance(x[0], str):
                    a = math.atan2(x[2][0] / x[2][1], x[1][0] / x[1][1])
                    near_wrap = near_wrap or abs(abs(a) - math.pi) < 1e-3
            if near_wrap:
                run.skip('SE(2) angular error within 1e-3 of +-pi')
                continue
            fam[e_case['cls']] += 1
            key = dict(part='jacobian', family=e_case['cls'], kind=c['verts'][e_case['vs'][0] - 1]['k'])
            before = [np.array(v.pose) for v in e.vertices]
            try:
                with library_debug_logging(run.replayed % 4 < 2):          # (half of the graphs with the library's loggers at DEBUG level)
                    jacs = held[n] if n in held else e.calc_jacobians()
            except Exception as ex:  # noqa
                run.violation(dict(key, outcome='raised'), 'calc_jacobians raised %r | edge %r' % (ex, e_case), dict(case=c, edge=n))
                continue
            if not all(np.array_equal(np.array(v.pose), b) for v, b in zip(e.vertices, before)):
                run.violation(dict(key, outcome='pose-not-restored'), 'numerical differentiation left a vertex pose changed | edge %r' % (e_case,), dict(case=c, edge=n))
            if not isinstance(jacs, (list, tuple)) or len(jacs) != len(e_case['vs']):
                run.violation(dict(key, outcome='shape'), 'calc_jacobians returned %r Jacobians for an edge over %d vertices | edge %r' % (
                    len(jacs) if hasattr(jacs, '__len__') else type(jacs).__name__, len(e_case['vs']), e_case), dict(case=c, edge=n))
                continue
            J = obs['jac'][n]
            off = 0
            tol = 2e-5 * (1 + S)
            if e_case['cls'] in ('range', 'mid'):
                # errors that depend on positions only: second derivatives are bounded by 1/separation <= 1 (lattice separations are >= 1), so
                # the truncation error of the 1e-6 forward difference is <= 5e-7 whatever the scale; rounding contributes ~1e-16*S/1e-6
                tol = 1e-6 + 2e-9 * S
            run.count(key=(repr(c), n), nontrivial=True)
            for j, x in enumerate(e_case['vs']):
                cd = B.CDIM[c['verts'][x - 1]['k']]
                exact = np.array([[q[0] / q[1] for q in row[off:off + cd]] for row in J])
                off += cd
                got = np.asarray(jacs[j], dtype=float)
                if got.shape != exact.shape:
                    run.violation(dict(key, outcome='shape'), 'numerical Jacobian %d has shape %r, expected %r' % (j, got.shape, exact.shape), dict(case=c, edge=n))
                    break
                dv = float(np.max(np.abs(got - exact)))
                run.dev(dv / (1 + S))
                if dv > tol:
                    ij = np.unravel_index(int(np.argmax(np.abs(got - exact))), got.shape)
                    run.violation(dict(key, outcome='jacobian'), 'numerical Jacobian w.r.t. vertex %d entry %s is %r, exact %r (dev %.3g > %.3g) | %s edge, scale %g' % (
                        j, ij, float(got[ij]), float(exact[ij]), dv, tol, e_case['cls'], S), dict(case=c, edge=n))
                    break
        # Units dimension: the same range measured in other units (error scaled by 1e-5 / 1e3): the numerical Jacobian must keep its RELATIVE accuracy
        for n, (e_case, e) in enumerate(zip(c['edges'], g._edges)):
            if e_case['cls'] != 'range' or hist is not None:
                continue
            for factor in (1e-5, 1e3):
                es = ScaledRange(list(e.vertex_ids), np.array([[2.0]]), float(e_case['tz'][0]) * factor, list(e.vertices))
                es.factor = factor
                try:
                    jacs = es.calc_jacobians()
                    if len(jacs) != len(e_case['vs']):
                        raise ValueError('%d Jacobians for an edge over %d vertices' % (len(jacs), len(e_case['vs'])))
                except Exception as ex:  # noqa
                    run.violation(dict(part='jacobian', family='scaled-range', outcome='raised'), 'calc_jacobians raised / returned %r' % (ex,), dict(case=c, edge=n))
                    continue
                off = 0
                for j, x in enumerate(e_case['vs']):
                    cd = B.CDIM[c['verts'][x - 1]['k']]
                    exact = factor * np.array([[q[0] / q[1] for q in row[off:off + cd]] for row in obs['jac'][n]])
                    off += cd
                    dv = float(np.max(np.abs(np.asarray(jacs[j], dtype=float) - exact)))
                    tol = factor * (1e-6 + 2e-9 * S) + 1e-16 * S * factor / 1e-6
                    run.count(key=(repr(c), n, 'scaled', factor, j), nontrivial=True)
                    if dv > tol:
                        run.violation(dict(part='jacobian', family='scaled-range', factor=factor), 'range edge in other units (error x %g): numerical Jacobian w.r.t. vertex %d deviates from the exact one by %.3g (> %.3g; relative %.3g)' % (
                            factor, j, dv, tol, dv / factor), dict(case=c, edge=n, factor=factor))
                        break
        if run.replayed % 9 == 1:
            run.sample(dict(case=c, exact_jacobian_edge0=obs['jac'][0][:2]))
        if hist is None and not m:
            # the inherited calc_chi2_gradient_hessian feeds these Jacobians into the normal equations: one real iteration on a fresh graph must
            # apply the exact Gauss-Newton step (within the accuracy of the forward difference), also for unary and ternary edges
            r = c03.step_compare(run, c, obs_list, dict(part='step', kind=c['verts'][0]['k']))
            steps += r is not None
    run.notes['custom_edges_compared'] = fam
    near_pi_headings(run)
    run.notes['gauss_newton_steps_compared'] = steps
    if min(fam.values()) == 0:
        raise RuntimeError('vacuity guard: %r' % fam)
    # ---- same optimum as the analytic twin ----
    rnd = random.Random(run.seed + 41)
    twins = 0
    for kind in ('SE2', 'SE3', 'R2', 'R3'):
        for rep in range(4 if run.tier == 'thorough' else 2):
            seed = rnd.randrange(10 ** 6)
            es, vs, truth = graphs.make(kind, seed, n_poses=5, n_landmarks=1, closures=2, dt=0.15, dr=0.08, noise=0.02 if rep % 2 else 0.0, custom=False)
            es_num = []
            for e in copy.deepcopy(es):
                if isinstance(e, EdgeOdometry):
                    es_num.append(graphs.RelPoseEdge(list(e.vertex_ids), e.information, e.estimate))
                else:
                    es_num.append(e)
            ga = Graph(copy.deepcopy(es), copy.deepcopy(vs))
            gn = Graph(es_num, copy.deepcopy(vs))
            with contextlib.redirect_stdout(io.StringIO()):
                ra = ga.optimize(tol=1e-10, max_iter=40, verbose=False)
                rn = gn.optimize(tol=1e-10, max_iter=40, verbose=False)
            twins += 1
            run.replayed += 1
            worst = 0.0
            for va, vn in zip(ga._vertices, gn._vertices):
                d = np.array(va.pose) - np.array(vn.pose)
                if len(d) == 7:
                    d[3:] = d[3:] if np.max(np.abs(d[3:])) < np.max(np.abs(np.array(va.pose)[3:] + np.array(vn.pose)[3:])) else np.array(va.pose)[3:] + np.array(vn.pose)[3:]
                worst = max(worst, float(np.max(np.abs(d))))
            run.count(key=('twin', kind, seed), nontrivial=True)
            # the raw relative-pose formula and the library's sign-canonical odometry error agree whenever the error quaternion has w > 0 (near the optimum)
            if worst > 1e-4 or not (abs(ra.final_chi2 - rn.final_chi2) <= 1e-4 * (1e-12 + abs(ra.final_chi2)) + 1e-9):
                run.violation(dict(part='twin', kind=kind), 'graph with numerically differentiated edges ends %.3g away from its analytic twin (chi2 %r vs %r, iterations %r vs %r)' % (
                    worst, rn.final_chi2, ra.final_chi2, rn.num_iterations, ra.num_iterations), dict(kind=kind, seed=seed))
    run.notes['analytic_twin_runs'] = twins
    # histories: a numerical Jacobian is taken at the CURRENT poses also after optimizer runs and the user's edits (clause query-fresh)
    from .. import scenario
    scenario.histories(run, ['se2c', 'se3c', 'r2c', 'se2inplace', 'se3inplace', 'mixed', 'se2', 'se3'], 60 if run.tier == 'thorough' else 8, 14,
                       lambda cl, ev: cl == 'query-fresh' and (ev.get('q') == 'edge_numjac' or (ev.get('q') in ('edge_jacobians', 'edge_contribs') and ev['edges'] and ev['edges'][(ev['target'] - 1) % len(ev['edges'])]['cls'] == 'custom')))
    run.rule = ('(i) lattice graphs carrying custom edges (unary prior, relative pose, range at Pythagorean separations, 3-vertex midpoint) over all pose kinds, '
                'translations up to 4e3: TLC differentiates each error exactly (dual numbers, exact sqrt), BaseEdge.calc_jacobians() (forward difference 1e-6) must '
                'agree within 2e-5*(1+scale) and restore every pose bitwise; (ii) graphs whose odometry edges are replaced by numerically differentiated twins must '
                'reach the same optimum (1e-4); non-trivial = every custom edge compared / every twin run')
    run.assumptions = ['inputs restricted to the rational lattice (L1)', 'SE(2) errors within 1e-3 of +-pi are excluded (property excludes the wrap set)',
                       'the "same optimum" clause is decided on near-consistent fixtures (C05 neighbourhood)']


def replay(run, rep):
    check(run)
