"""C15: queries are pure, optimize changes only vertex poses (frame conditions of GraphSLAM imposed on recorded executions)."""
from .. import scenario

TEMPLATES = ['r2', 'r3', 'se2', 'se3', 'se2c', 'se3c', 'r2c', 'mixed', 'se2fix', 'se2alias', 'se2shared', 'r3shared', 'r2lonely', 'se3lonely', 'se2big', 'se2plain', 'se3reg', 'se2plainc', 'se2desc', 'se3desc', 'se3neg', 'se3rough', 'se2rim', 'se2hard', 'se3noid', 'se2inplace', 'se3inplace', 'se2fault', 'se3fault', 'r2fault']


def model_check(run, thorough):
    """Exhaustive bounded model of the system specification: all behaviours over a small universe satisfy the frame conditions."""
    from .. import tlc
    props = 'INVARIANT BoundById\nINVARIANT ReportShape\nPROPERTY FixedFrozen\nPROPERTY FlagsRule\nPROPERTY StructureFrozen\nPROPERTY QueriesPure\nPROPERTY RejectedIsFinal\nPROPERTY FirstFixedAfterOpt\nPROPERTY PosesRule\n'
    consts = 'CONSTANTS\n MaxV = 2\n Tokens = {0, 1%s}\n MaxIterMC = %d\n' % (', 2' if thorough else '', 3 if thorough else 2)
    res = tlc.run('MC_GraphSLAM', 'SPECIFICATION MCSpec\n' + consts + props, coverage=True, timeout=3000)
    if res.violation:
        raise tlc.TLCError('GraphSLAM violates %s on the bounded model:\n%s' % (res.violation, res.out[-1500:]))
    run.add_tlc(res, 'MC_GraphSLAM (exhaustive, MaxV=2)')
    for act in ('GraphSLAM!Query', 'GraphSLAM!SetFixed', 'GraphSLAM!SetPose', 'GraphSLAM!SetMeas'):
        if res.coverage.get(act, 0) == 0:
            raise tlc.TLCError('vacuity guard: action %s never taken' % act)
    res.cleanup()
    r2 = tlc.run('MC_GraphSLAM', 'SPECIFICATION MutantSpec\nCONSTANTS\n MaxV = 2\n Tokens = {0, 1}\n MaxIterMC = 1\nPROPERTY FixedFrozen\n', timeout=600)
    r2.cleanup()
    if not r2.violation:
        raise tlc.TLCError('vacuity guard: the model mutant (optimizer moving fixed vertices) was NOT caught by FixedFrozen')
    run.notes['model_mutant_caught'] = True
    for spec, prop in (('Mutant2Spec', 'PosesRule'), ('Mutant3Spec', 'StructureFrozen')):
        r3 = tlc.run('MC_GraphSLAM', 'SPECIFICATION %s\nCONSTANTS\n MaxV = 2\n Tokens = {0, 1}\n MaxIterMC = 1\nPROPERTY %s\n' % (spec, prop), timeout=600)
        r3.cleanup()
        if not r3.violation:
            raise tlc.TLCError('vacuity guard: the model mutant %s was NOT caught by %s' % (spec, prop))
    run.notes['model_mutants_caught'] = 3


def binding_selftest(run, events):
    """Demonstration that the trace specification really constrains the recording: corrupt one logged field / drop one event of a valid
    trace and the corresponding clause must reject (otherwise the check is vacuous: machinery failure)."""
    import copy
    base = [e for e in events if e['sid'] <= 12]
    wanted = []
    # (1) a fixed vertex's pose digest changes across an optimizer call
    t1 = copy.deepcopy(base)
    for e in t1:
        if e['op'] == 'OptCall' and any(v['fixed'] for v in e['verts']):
            j = [k for k, v in enumerate(e['verts']) if v['fixed']][0]
            e['verts'][j]['pose'] = 'corrupted0000'
            wanted.append((t1, (e['sid'], e['seq']), 'opt-effect'))
            break
    # (2) a query changes a measurement
    t2 = copy.deepcopy(base)
    for e in t2:
        if e['op'] == 'Query' and e['edges']:
            e['edges'][0]['num'] = 'corrupted0000'
            wanted.append((t2, (e['sid'], e['seq']), 'query-pure'))
            break
    # (3) a repeated query returns a different value
    t3 = copy.deepcopy(base)
    seen = {}
    for e in t3:
        if e['op'] in ('OptCall', 'Construct', 'Reload', 'SetPose', 'SetMeas'):
            seen = {k: v for k, v in seen.items() if k[0] != e['sid']}
        if e['op'] == 'Query':
            k = (e['sid'], e['q'], e['target'])
            if k in seen:
                e['result'] = 'corrupted0000'
                wanted.append((t3, (e['sid'], e['seq']), 'query-deterministic'))
                break
            seen[k] = True
    # (4) an event is dropped (the hook did not fire): the next event no longer follows from the state before it
    t4 = copy.deepcopy(base)
    for n, e in enumerate(t4):
        if e['op'] == 'SetFixed' and n + 1 < len(t4) and t4[n + 1]['sid'] == e['sid'] and t4[n + 1]['op'] == 'Query' and (n == 0 or t4[n - 1]['verts'] != e['verts']):
            nxt = t4[n + 1]
            del t4[n]
            wanted.append((t4, (nxt['sid'], nxt['seq']), 'query-pure'))
            break
    # (5) a call cut short by a failing edge leaves an edge's numbers changed / claims more complete iterations than the failing assembly allows
    sids = sorted({e['sid'] for e in events if e['op'] == 'OptAbort' and e['edges']})[:2]
    t5 = copy.deepcopy([e for e in events if e['sid'] in sids])
    for e in t5:
        if e['op'] == 'OptAbort':
            e['edges'][0]['num'] = 'corrupted0000'
            wanted.append((t5, (e['sid'], e['seq']), 'abort-effect'))
            break
    t6 = copy.deepcopy([e for e in events if e['sid'] in sids])
    for e in t6:
        if e['op'] == 'OptAbort':
            e['applied'] = e['failAt']
            wanted.append((t6, (e['sid'], e['seq']), 'abort-atomic'))
            break
    caught = 0
    for trace, where, clause in wanted:
        rej = scenario.validate(run, trace, name='Trace_selftest')
        if (where[0], where[1], clause) not in rej:
            raise RuntimeError('binding self-test: corrupted trace was not rejected at %r with clause %s (rejections: %r)' % (where, clause, rej[:5]))
        caught += 1
    if caught < 2:
        raise RuntimeError('binding self-test: only %d corruptions could be constructed' % caught)
    run.notes['binding_selftest_corruptions_rejected'] = caught


def check(run):
    thorough = run.tier == 'thorough'
    model_check(run, thorough)
    num = 1500 if thorough else 160
    depth = 51 if thorough else 31
    behaviours = scenario.generate(run, TEMPLATES, run.seed, num, depth, workers=8, edits=True, faults=True)
    # hand-written behaviours: every query on every edge / vertex of graphs whose quaternions are stored with negative scalar parts and of a
    # file-expressible graph, whatever the seed generated
    def qy(name, t=1):
        return {'op': 'Query', 'q': name, 'target': t, 'maxIter': 0, 'fixFirst': False, 'verbose': False, 'tol': '-', 'idx': 0, 'flag': False}
    for tname in ('se3neg', 'se3reg', 'se2plain', 'se3rough', 'se3noid', 'se2inplace'):
        behaviours.append((tname, [qy('to_g2o')] + [qy(nm, t) for t in range(1, 13) for nm in ('edge_to_g2o', 'edge_error')] + [qy('calc_chi2'), qy('to_g2o'), qy('calc_chi2')]))
        behaviours.append((tname, [qy(nm, t) for t in range(1, 9) for nm in ('vertex_to_g2o', 'pose_ops', 'edge_jacobians', 'edge_contribs', 'pose_copy')] + [qy('equals'), qy('plot'), qy('calc_chi2')]))
    # an edge on the rim of its error's domain: numerical differentiation meets NaN there; every query, repeated
    behaviours.append(('se2rim', [qy(nm, t) for t in (13, 12, 26) for nm in ('edge_error', 'edge_jacobians', 'edge_contribs', 'edge_chi2', 'calc_chi2', 'edge_jacobians')]))
    # non-finite information entries: every kind of query on the affected edges
    behaviours.append(('se2hard', [qy(nm, t) for t in (3, 5, 3) for nm in ('edge_chi2', 'edge_contribs', 'edge_jacobians', 'calc_chi2', 'edge_to_g2o', 'equals')]))
    # optimizer calls cut short by a failing user-defined edge (GraphSLAM!OptAbort) at every assembly 1..3, then the session goes on
    def ab(m, k, ff):
        return {'op': 'OptAbort', 'q': '-', 'target': 0, 'maxIter': m, 'fixFirst': ff, 'verbose': False, 'tol': '-', 'idx': k, 'flag': False}
    for tname in ('se2fault', 'se3fault', 'r2fault'):
        behaviours.append((tname, [qy('calc_chi2'), ab(3, 1, False), qy('calc_chi2'), ab(3, 2, True), qy('calc_chi2'), qy('edge_contribs', 3), ab(4, 3, True), qy('calc_chi2'), qy('to_g2o'),
                                   {'op': 'OptCall', 'q': '-', 'target': 0, 'maxIter': 2, 'fixFirst': True, 'verbose': False, 'tol': '0', 'idx': 0, 'flag': False}, qy('calc_chi2')]))
    # optimize(max_iter=0) (R7): an aborted call with zero complete iterations; then the session goes on
    for tname in ('se2', 'r3', 'se3fix', 'mixed'):
        behaviours.append((tname, [qy('calc_chi2'), dict(ab(0, 1, True), op='OptZero'), qy('calc_chi2'), dict(ab(0, 1, False), op='OptZero'), qy('edge_contribs', 2),
                                   {'op': 'OptCall', 'q': '-', 'target': 0, 'maxIter': 2, 'fixFirst': False, 'verbose': False, 'tol': '0', 'idx': 0, 'flag': False}, qy('calc_chi2')]))
    events = []
    sessions = scenario.play(behaviours, run.seed, events, twin_every=3)
    rejects = scenario.validate(run, events)
    run.replayed = len(sessions)
    if not rejects:
        binding_selftest(run, events)
    ops = {}
    byid = {(e['sid'], e['seq']): e for e in events}
    for e in events:
        k = e['op'] if e['op'] != 'Query' else 'Query:' + e['q']
        ops[k] = ops.get(k, 0) + 1
        run.count(key=(e['sid'], e['seq']), nontrivial=e['op'] != 'Construct')
    run.notes['events_by_operation'] = ops
    run.notes['reloads'] = {'continued': sum(1 for e in events if e['op'] == 'Reload' and not e['raised']), 'refused': sum(1 for e in events if e['op'] == 'Reload' and e['raised'])}
    missing = [q for q in ('calc_chi2', 'edge_error', 'edge_jacobians', 'edge_contribs', 'equals', 'to_g2o', 'plot', 'pose_ops', 'pose_copy') if ('Query:' + q) not in ops]
    run.notes['aborted_optimizer_calls'] = {'events': ops.get('OptAbort', 0), 'raised': sum(1 for e in events if e['op'] == 'OptAbort' and e['raised']),
                                            'cut_after_complete_iterations': sorted({e['applied'] for e in events if e['op'] == 'OptAbort'})}
    if missing or 'OptCall' not in ops or 'OptAbort' not in ops:
        raise RuntimeError('vacuity guard: operations never exercised: %r' % missing)
    for sid, seq, clause in rejects:
        ev = byid[(sid, seq)]
        s = sessions[sid]
        det = s.details.get(seq, {})
        key = dict(clause=clause, op=ev['op'], q=ev.get('q'), template=s.template, nan=det.get('nan'),
                   isolated_fixed=any(det.get('isolated_fixed', [])) if det else None)
        if clause in ('opt-report', 'opt-split', 'opt-verbose', 'opt-raised', 'opt-fresh'):
            continue        # the report / stopping rule is C12's property
        if clause in ('opt-str', 'construct-gradient-index', 'query-fresh', 'abort-raised', 'abort-atomic') or clause.startswith('reload-'):
            # behaviour specified beyond the listed properties (DESIGN.md section 6): recorded, never a verdict of this property
            run.notes.setdefault('beyond_list_rejections', []).append([sid, seq, clause])
            continue
        if clause in ('opt-effect', 'abort-effect') and det.get('nan'):
            continue        # a fixed vertex moved by a NaN solve is C06's property (fault sequences), reported there
        run.violation(key, 'trace rejected at session %d event %d (%s %s): clause %s | template %s' % (sid, seq, ev['op'], ev.get('q', ''), clause, s.template),
                      dict(event=ev, detail=det, session_template=s.template, prefix=[x for x in events if x['sid'] == sid and x['seq'] < seq][-3:]))
    run.sample(dict(session=[{k: v for k, v in e.items() if k not in ('verts', 'edges')} for e in events if e['sid'] == 1][:12]))
    run.sample(dict(event=events[1]))
    run.rule = ('sessions = behaviours of the scenario model (TLC -simulate, depth %d) stepped on real graphs of every kind (incl. custom numerical-Jacobian '
                'edges, landmark edges with offsets, parallel edges, mixed dimensions); every call logs bitwise digests of every pose / measurement / information / '
                'offset, flags, ids and orders; Trace_GraphSLAM evaluates the frame condition of the action after EVERY event and determinism of repeated '
                'queries; non-trivial = every recorded call after construction' % depth)
    run.assumptions = ['digests are SHA-1 of the float64 bytes (bitwise comparison)', 'matplotlib Agg backend for plot']


def replay(run, rep):
    check(run)
