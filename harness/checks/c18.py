"""C18: Graph construction binds edges by vertex id and rejects ill-typed edges (GraphSLAM!Construct, exhaustive cross product)."""
import numpy as np

from graphslam.edge.edge_landmark import EdgeLandmark
from graphslam.edge.edge_odometry import EdgeOdometry
from graphslam.graph import Graph
from graphslam.vertex import Vertex

from .. import build as B
from .. import tlc, tlaval

QUICK = r'''
Presents1(n) == {AllPresent(n)}
MCInit == Init /\ ( InitCfg({"odo", "lm"}, {2}, EstTypes, OffTypes, SquareShapes \cup OddShapes, Presents1, {"fwd", "rev"})
                  \/ InitCfg({"odo", "lm"}, {2}, EstTypes, {"none", "SE2", "SE3", "R3"}, {<<2,2>>, <<3,3>>, <<6,6>>}, AnyPresent, {"fwd"})
                  \/ InitCfg({"odo", "lm"}, {1, 3}, EstTypes, {"none", "SE2", "SE3"}, {<<2,2>>, <<3,3>>, <<6,6>>}, Presents1, {"rev"})
                  \/ InitCfg({"odo", "lm"}, {3}, Kinds, {"none", "SE2", "SE3"}, {<<2,2>>, <<3,3>>, <<6,6>>}, OneAbsent, {"fwd"}) )
MCSpec == MCInit /\ [][MCNext]_allvars
'''
THOROUGH = r'''
MCInit == Init /\ ( InitCfg({"odo", "lm"}, {2}, EstTypes, OffTypes, SquareShapes \cup OddShapes, AnyPresent, {"fwd", "rev"})
                  \/ InitCfg({"odo", "lm"}, {1}, EstTypes, OffTypes, SquareShapes \cup OddShapes, AnyPresent, {"fwd", "rev"})
                  \/ InitCfg({"odo", "lm"}, {3}, EstTypes, {"none", "SE2", "SE3", "R2"}, {<<2,2>>, <<3,3>>, <<6,6>>}, OneAbsent, {"fwd", "rev"}) )
MCSpec == MCInit /\ [][MCNext]_allvars
'''


def value_of(t, salt):
    """A measurement / offset object of the named type."""
    if t == 'none':
        return None
    if t == 'float':
        return 1.5 + salt
    if t == 'array':
        return np.array([0.5 + salt, -1.0, 2.0])
    if t == 'SE2':
        return B.pose('SE2', (1 + salt, -2), (3, 4, 5))
    if t == 'SE3':
        return B.pose('SE3', (1 + salt, -2, 3), (1, -2, 2, 4, 5))
    return B.pose(t, (1 + salt, -2, 3)[:B.DIM[t]])


def info_of(shape):
    r, c = shape
    if c == 0:
        return np.ones(r)
    m = np.zeros((r, c))
    for i in range(min(r, c)):
        m[i, i] = 2.0 + i
    # the value content of the information matrix is not part of consistency (only its shape is): vary it -- diagonal, dense symmetric, symmetric
    # only up to rounding (inv(cov), R diag(w) R^T), integer dtype
    _info_calls[0] += 1
    form = _info_calls[0] % 4
    if form and r == c and r > 1:
        m = m + 0.25
        if form == 2:
            m[0, 1] = np.nextafter(m[0, 1], 1.0)
        elif form == 3:
            m = (4 * m).astype(np.int64)
    return m


_info_calls = [0]


def check(run, only=None):
    defs = THOROUGH if run.tier == 'thorough' else QUICK
    mc = '---- MODULE MC_C18 ----\nEXTENDS MC_Construct\n%s\n====\n' % defs
    cfg = ('SPECIFICATION MCSpec\nINVARIANT BoundById\nINVARIANT OrderIrrelevant\n'
           'PROPERTY RejectedIsFinal\nPROPERTY StructureFrozen\n')
    res = tlc.run('MC_C18', cfg, mc_text=mc, dump=True, coverage=False, timeout=3000)
    try:
        if res.violation:
            raise tlc.TLCError('model property %s violated:\n%s' % (res.violation, res.out[-2000:]))
        run.add_tlc(res, 'MC_C18 (GraphSLAM!Construct)')
        n_acc = n_rej = 0
        for st in tlaval.iter_dump(res.dump):
            if st['status'] == 'unbuilt':
                continue
            c = st['cfg']
            expect_ok = st['status'] == 'ready'
            n_acc += expect_ok
            n_rej += not expect_ok
            _one(run, c, expect_ok, st)
        run.notes['spec_accepts'] = n_acc
        run.notes['spec_rejects'] = n_rej
        if n_acc == 0 or n_rej == 0:
            raise tlc.TLCError('vacuity guard: accepted=%d rejected=%d' % (n_acc, n_rej))
    finally:
        res.cleanup()
    run.exhaustive = True
    run.rule = ('TLC enumerates (edge class) x (vertex count 1..3) x (kind of each endpoint) x (measurement type: 4 pose kinds, ndarray, float) x '
                '(offset type: 4 kinds, None) x (information shape n x n, n=1..7, non-square, 1-D) x (each named id present/absent) x (vertex-list order) '
                'through GraphSLAM!Construct; every resulting state is replayed as Graph([edge], vertices); non-trivial = every distinct configuration '
                '(each is a different typing situation)')
    run.assumptions = ['assert-based validation: python -O is outside the property', 'edges naming one vertex twice are not generated']


def _one(run, c, expect_ok, st):
    nv = c['nv']
    verts_by_id = {}
    vlist = []
    for v in st['verts']:
        k = v['kind']
        p = B.pose(k, (1, 2, 3)[:B.DIM[k]], {'SE2': (0, 1, 1), 'SE3': (1, 1, 1, 1, 2)}.get(k, ()))
        vx = Vertex(v['id'], p)
        verts_by_id[v['id']] = vx
        vlist.append(vx)
    def mk(ed):
        vids_ = list(ed['vids'])
        inf_ = info_of(ed['info'])
        est_ = value_of(ed['est'], 0.0)
        kw = {}
        if run.replayed % 4 == 3:
            # History dimension (constructor form): the edge is created with the optional `vertices=` argument holding Vertex objects of some
            # EARLIER graph whose ids are other ids; what an edge is attached to is decided by the ids it NAMES
            kw['vertices'] = [Vertex(1000 + j, B.pose('R2', (7, 7))) for j in range(len(vids_))]
        if ed['cls'] == 'odo':
            return EdgeOdometry(vids_, inf_, est_, **kw)
        return EdgeLandmark(vids_, inf_, est_, value_of(ed['off'], 0.25), offset_id=0, **kw)
    elist = [mk(ed) for ed in st['edges']]
    e = elist[-1]                       # the edge under test (a consistent companion may be listed before it)
    ed = st['edges'][-1]
    vids = list(ed['vids'])
    key = dict(cls=c['cls'], nv=nv, kinds=tuple(c['kinds']), est=c['est'], off=c['off'], info=tuple(c['info']), present=tuple(c['present']), ids=c['ids'], dup=c['dup'], companion=c['comp'])
    # History dimension: every other configuration re-uses an edge object that is ALREADY bound to the vertex objects of an earlier
    # graph (same ids, different objects - also for ids the new vertex list lacks).  Construction must re-bind it to the listed vertices.
    prebound = run.replayed % 2 == 1
    if prebound:
        e.vertices = [Vertex(vid, B.pose(c['kinds'][j], (5, 6, 7)[:B.DIM[c['kinds'][j]]], {'SE2': (1, 0, 1), 'SE3': (0, 0, 0, 1, 1)}.get(c['kinds'][j], ())))
                      for j, vid in enumerate(vids)]
        if run.replayed % 4 == 1:
            # ... and in every other of these histories the earlier life of the edge was that of an ordinary TWO-vertex edge whose `vertex_ids` were
            # edited afterwards: the stale list is longer / shorter than the ids the edge names now
            e.vertices = (e.vertices + [Vertex(990 + j, B.pose('R2', (5, 6))) for j in range(2)])[:2]
            key['prebound_two'] = True
        key['prebound'] = True
        run.notes['prebound_edge_histories'] = run.notes.get('prebound_edge_histories', 0) + 1
    raised = None
    try:
        g = Graph(elist, vlist)
    except Exception as ex:  # noqa
        raised = ex
    run.replayed += 1
    run.count(key=(c['cls'], nv, tuple(c['kinds']), c['est'], c['off'], tuple(c['info']), tuple(c['present']), c['perm'], c['ids'], c['dup'], c['comp']))
    if expect_ok and raised is not None:
        run.violation(dict(key, verdict='wrong-reject'), 'consistent edge rejected with %r | config %r' % (raised, c), dict(config=c))
    elif not expect_ok and raised is None:
        run.violation(dict(key, verdict='wrong-accept'), 'inconsistent edge silently accepted | config %r' % (c,), dict(config=c))
    elif expect_ok:
        # bound by id: e.vertices[j] IS the listed vertex whose id is vertex_ids[j]
        bind = st['obs']['bind'][-1]
        for j, vid in enumerate(vids):
            if e.vertices[j] is not vlist[bind[j] - 1] or e.vertices[j].id != vid:
                run.violation(dict(key, verdict='wrong-binding'), 'edge position %d bound to the wrong vertex | config %r' % (j, c), dict(config=c))
    if run.replayed % 1499 == 1:
        run.sample(dict(config=c, spec_status=st['status'], code_raised=repr(raised)))


def replay(run, rep):
    # re-run the whole (cheap, exhaustive) enumeration
    check(run)
