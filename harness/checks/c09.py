"""C09: pose composition is the rigid-motion group (exact model in TLA+, group laws model-checked, model = code)."""
import numpy as np

from .. import build as B
from .. import edgecases as EC
from .. import posecases as PC

TOL = 1e-12


def group_theorem(run):
    """T1 on the complete closed groups: all 20^3 triples of C4 / Pythagorean rotations (quick, thorough) and all 24^3 triples of Hurwitz
    units (thorough): the model is a group acting on points and its matrix form is a homomorphism."""
    import json
    import os
    from .. import tlc
    specs = [('GSpec2', 'SE(2): 20^3 rotation triples')] + ([('GSpec3', 'SE(3): 24^3 Hurwitz triples')] if run.tier == 'thorough' else [])
    for spec, label in specs:
        d = tlc.scratch()
        with open(os.path.join(d, 'cases.ndjson'), 'w') as f:
            f.write(json.dumps({'k': 'R2', 'ta': [0, 0], 'ra': [], 'tb': [0, 0], 'rb': [], 'tc': [0, 0], 'rc': [], 'pt': [0, 0], 'dt': [0, 0], 'dr': [], 'laws': True, 'nq': []}) + '\n')
        res = tlc.run('MC_GroupLaws', 'SPECIFICATION %s\nCONSTANTS K = 0\nINVARIANT AllLaws\n' % spec, keep_dir=d, timeout=3000)
        try:
            if res.violation:
                raise tlc.TLCError('the pose model is not a group: %s\n%s' % (res.violation, res.out[-1500:]))
            run.add_tlc(res, 'MC_GroupLaws %s (exhaustive)' % label)
        finally:
            res.cleanup()


def law_monitors(run):
    """The theorems the model satisfies (T1, T2) imposed as laws on executions with GENERIC float operands, in particular rotations far smaller
    and translations far larger / smaller than any lattice point: matrix homomorphism, two-sided inverse, associativity, a (-) b = b^-1 (+) a,
    point action = matrix action, boxplus = oplus with the pose built from the increment.  (Numeric closeness is judged here, TLC has no reals: L3.)"""
    import math
    import random
    from graphslam.pose.r2 import PoseR2
    from graphslam.pose.r3 import PoseR3
    from graphslam.pose.se2 import PoseSE2
    from graphslam.pose.se3 import PoseSE3
    rnd = random.Random(run.seed + 101)
    n_runs = 4000 if run.tier == 'thorough' else 600

    def ang():
        return rnd.choice([-1, 1]) * 10 ** rnd.uniform(-9, math.log10(math.pi))

    def mag():
        return rnd.choice([-1, 1]) * 10 ** rnd.uniform(-6, 4)

    def rp(kind):
        if kind == 'SE2':
            return PoseSE2([mag(), mag()], ang())
        if kind == 'SE3':
            ax = np.array([rnd.gauss(0, 1) for _ in range(3)])
            ax /= np.linalg.norm(ax)
            th = ang()
            return PoseSE3([mag(), mag(), mag()], list(ax * math.sin(th / 2)) + [math.cos(th / 2)])
        return (PoseR2 if kind == 'R2' else PoseR3)([mag() for _ in range(B.DIM[kind])])

    def close(x, y, scale):
        x, y = np.asarray(x, dtype=float), np.asarray(y, dtype=float)
        return x.shape == y.shape and float(np.max(np.abs(x - y))) <= 1e-9 * scale

    def same_motion(p, q, scale):
        if type(p) is not type(q):
            return False
        if isinstance(p, PoseSE3):
            return close(np.asarray(p)[:3], np.asarray(q)[:3], scale) and (close(np.asarray(p)[3:], np.asarray(q)[3:], 1.0) or close(np.asarray(p)[3:], -np.asarray(q)[3:], 1.0))
        if isinstance(p, PoseSE2):
            d = (p[2] - q[2] + math.pi) % (2 * math.pi) - math.pi
            return close(np.asarray(p)[:2], np.asarray(q)[:2], scale) and abs(d) <= 1e-9
        return close(p, q, scale)
    for n in range(n_runs):
        kind = ('SE3', 'SE2', 'SE3', 'R3', 'SE2', 'R2')[n % 6]
        a, b, c = rp(kind), rp(kind), rp(kind)
        scale = 1.0 + max(float(np.max(np.abs(np.asarray(x)[:B.DIM[kind]]))) for x in (a, b, c)) * 3
        key = dict(part='law-monitor', k=kind)
        laws = []
        try:
            ident = type(a).identity()
            laws.append(('a+inverse', same_motion(a + a.inverse, ident, scale)))
            laws.append(('inverse+a', same_motion(a.inverse + a, ident, scale)))
            laws.append(('associativity', same_motion((a + b) + c, a + (b + c), scale * scale if False else scale * 3)))
            laws.append(('ominus', same_motion(a - b, b.inverse + a, scale * 3)))
            laws.append(('b+(a-b)', same_motion(b + (a - b), a, scale * 3)))
            pt = np.array([mag() for _ in range(B.DIM[kind])])
            laws.append(('action', close(np.asarray((a + b) + pt), np.asarray(a + (b + pt)), scale * 3 + float(np.max(np.abs(pt))) * 3)))
            if hasattr(a, 'to_matrix'):
                laws.append(('homomorphism', close((a + b).to_matrix(), a.to_matrix() @ b.to_matrix(), scale * 3)))
                hp = np.append(pt, 1.0)
                laws.append(('matrix-action', close(np.asarray(a + pt), (a.to_matrix() @ hp)[:-1], scale + float(np.max(np.abs(pt))) * 3)))
            # boxplus = oplus with the pose whose compact form is the increment
            if kind == 'SE3':
                v = np.array([rnd.gauss(0, 1) for _ in range(3)])
                v = v / np.linalg.norm(v) * 10 ** rnd.uniform(-9, -0.05)
                d = np.array([mag(), mag(), mag(), v[0], v[1], v[2]])
                laws.append(('boxplus', same_motion(a + d, a + PoseSE3(d[:3], list(v) + [math.sqrt(1.0 - float(v @ v))]), scale * 3)))
            elif kind == 'SE2':
                d = np.array([mag(), mag(), ang()])
                laws.append(('boxplus', same_motion(a + d, a + PoseSE2(d[:2], d[2]), scale * 3)))
            else:
                d = np.array([mag() for _ in range(B.DIM[kind])])
                laws.append(('boxplus', same_motion(a + d, a + type(a)(d), scale * 3)))
        except Exception as ex:  # noqa
            run.violation(dict(key, law='exception'), 'exception %r with generic operands %r %r' % (ex, np.asarray(a).tolist(), np.asarray(b).tolist()), dict(a=np.asarray(a).tolist(), b=np.asarray(b).tolist()))
            continue
        run.count(key=('law', n), nontrivial=True)
        for name, ok in laws:
            if not ok:
                run.violation(dict(key, law=name), 'law %s fails for generic operands a=%r b=%r c=%r' % (name, np.asarray(a).tolist(), np.asarray(b).tolist(), np.asarray(c).tolist()),
                              dict(a=np.asarray(a).tolist(), b=np.asarray(b).tolist(), c=np.asarray(c).tolist()))
                break
    run.notes['law_monitor_runs_on_generic_floats'] = n_runs


def half_turn_boxplus(run):
    """Boundary of the boxplus domain on generic floats: increments whose rotational part has norm 1 (up to rounding: the sum of squares may be
    1 +- ulp while the norm is exactly 1.0).  p [+] delta is p (+) the pose with translation dt and quaternion (dr, sqrt(1 - |dr|^2)) = (dr, 0)."""
    import random
    from graphslam.pose.se3 import PoseSE3
    rnd = random.Random(run.seed + 913)
    for j in range(300):
        u = np.array([rnd.gauss(0, 1) for _ in range(3)])
        u = u / np.linalg.norm(u)
        if j % 3 == 0:
            u = np.array([[0.6, 0.8, 0.0], [0.0, 0.6, -0.8], [2.0 / 3.0, -1.0 / 3.0, 2.0 / 3.0], [-1.0, 0.0, 0.0], [0.28, 0.0, 0.96]][(j // 3) % 5])
        if float(np.linalg.norm(u)) > 1.0:
            continue          # (an ulp OUTSIDE the domain: the library documents a fallback there; no claim)
        q = np.array([rnd.gauss(0, 1) for _ in range(4)])
        p = PoseSE3([rnd.uniform(-5, 5) for _ in range(3)], q / np.linalg.norm(q))
        dt = np.array([rnd.uniform(-2, 2) for _ in range(3)])
        run.count(key=('half-turn-boxplus', j), nontrivial=True)
        try:
            got = np.asarray(p + np.concatenate([dt, u]), dtype=float)
            want = np.asarray(p + PoseSE3(dt, np.concatenate([u, [0.0]])), dtype=float)
        except Exception as ex:  # noqa
            run.violation(dict(k='SE3', op='a boxplus d', half_turn=True), 'exception %r for the increment %r' % (ex, u.tolist()), dict(u=u.tolist()))
            continue
        dev = min(float(np.max(np.abs(got - want))), float(np.max(np.abs(np.concatenate([got[:3] - want[:3], got[3:] + want[3:]])))))
        if not np.all(np.isfinite(got)) or dev > 1e-7:          # (sqrt(1 - |dr|^2) is ill-conditioned at 1: |dr| = 1 - 1e-16 gives a scalar part of 1.5e-8)
            run.violation(dict(k='SE3', op='a boxplus d', half_turn=True), 'p [+] delta with |delta_rot| = 1: got %r, p (+) pose(delta) is %r' % (got.tolist(), want.tolist()), dict(u=u.tolist(), p=np.asarray(p).tolist()))


def check(run, cases=None):
    if cases is None:
        group_theorem(run)
        law_monitors(run)
        half_turn_boxplus(run)
    cases = cases if cases is not None else PC.gen_cases(run.tier, run.seed)
    old = EC.headroom_class
    EC.headroom_class = PC.headroom_class
    try:
        pairs = EC.evaluate(cases, 0, 'MC_C09', run, spec='MC_PoseCases', invariants=('InputsUnit', 'GroupLaws'))
    finally:
        EC.headroom_class = old
    run.rule = ('lattice triples (a, b, c), a point and a boxplus increment per case, all four pose kinds; TLC checks the group laws '
                '(homomorphism to matrices, two-sided inverse/identity, associativity, action, ominus) on the model and emits the exact results; '
                'the code must reproduce every result as a rigid motion; non-trivial = distinct case with a != identity and b != identity')
    for c, obs in pairs:
        k = c['k']
        S = PC.scale_of(c)
        if c.get('lite'):
            # only the composition is evaluated by the model (tiny right-operand rotation, see posecases)
            a, b = B.pose(k, c['ta'], c['ra']), B.pose(k, c['tb'], c['rb'])
            run.replayed += 1
            run.count(key=(k, tuple(c['ta']), tuple(c['ra']), tuple(c['tb']), tuple(c['rb'])), nontrivial=True)
            try:
                res = a + b
                dt, dr, _ = PC.pose_dev(res, obs['comp'])
            except Exception as ex:  # noqa
                run.violation(dict(k=k, op='a+b', tiny_rotation=True), 'exception %r | case %r' % (ex, c), dict(case=c))
                continue
            run.dev(max(dt / S, dr))
            if not (dt <= TOL * 50 * S and dr <= TOL * 50):
                run.violation(dict(k=k, op='a+b', tiny_rotation=True), 'a+b with a tiny rotation as right operand: deviation translation %.3g rotation %.3g, result %r | case %r' % (
                    dt, dr, np.asarray(res).tolist(), c), dict(case=c, expected=obs['comp']))
            continue
        a, b, cc = B.pose(k, c['ta'], c['ra']), B.pose(k, c['tb'], c['rb']), B.pose(k, c['tc'], c['rc'])
        a0, b0 = np.array(a), np.array(b)
        key = dict(k=k)
        run.replayed += 1
        run.count(key=(k, tuple(c['ta']), tuple(c['ra']), tuple(c['tb']), tuple(c['rb'])), nontrivial=(obs['comp'] != obs['ident']))
        pt = np.array([float(x) for x in c['pt']])
        PtCls = B.CLS_OF['R2' if B.DIM[k] == 2 else 'R3']
        d = PC.delta_array(c)
        ident = type(a).identity()
        e0 = type(a).identity()
        e0 += d                        # `+=` on a pose obtained from identity() must not affect later identity() results
        e1 = type(a).identity()
        e1[0] = 7.0                    # a pose is an ndarray: writing into one obtained from identity() must not reach later identity() results
        e1[:] = e1 * 2.0
        e2 = a.copy()
        e2[:] = 0.0                    # ... and writing into a copy must not reach the original
        ident_again = type(a).identity()
        if np.shares_memory(ident_again, type(a).identity()) or np.shares_memory(a, a.copy()):
            run.violation(dict(k=k, op='identity-aliasing'), 'two identity() results (or a pose and its copy()) share memory', dict(case=c))
        if not np.array_equal(np.array(ident_again), np.array(ident)) or not np.array_equal(np.array(ident), np.array(type(a).identity().copy())):
            run.violation(dict(k=k, op='identity-after-iadd'), 'identity() differs after `e = identity(); e += delta`: %r' % (np.asarray(ident_again).tolist(),), dict(case=c))

        def ipl():
            x = a.copy()
            x += d
            return x
        ops = [('a+b', lambda: a + b, obs['comp']), ('a-b', lambda: a - b, obs['ominus']), ('a.inverse', lambda: a.inverse, obs['inv']),
               ('(a+b)+c', lambda: (a + b) + cc, obs['abc']), ('a+(b+c)', lambda: a + (b + cc), obs['abc']),
               ('a+identity', lambda: a + ident, dict(obs['comp'], t=_t(obs, a0, k), r=None)), ('identity+a', lambda: ident + a, None),
               ('a+inverse', lambda: a + a.inverse, obs['ident']), ('inverse+a', lambda: a.inverse + a, obs['ident']),
               ('a-a', lambda: a - a, obs['ident']),
               ('b+(a-b)', lambda: b + (a - b), None),
               ('a boxplus d', lambda: a + d, obs['boxplus']), ('a += d', ipl, obs['boxplus'])]
        for name, fn, exp in ops:
            try:
                res = fn()
            except Exception as ex:  # noqa
                run.violation(dict(key, op=name), 'exception %r in %s | case %r' % (ex, name, c), dict(case=c))
                continue
            if name in ('a+identity', 'identity+a', 'b+(a-b)'):
                # expected: the operand a itself (exact: lifted input)
                dt, dr = _dev_to_pose(res, a0, k)
            else:
                dt, dr, _ = PC.pose_dev(res, exp)
            run.dev(max(dt / S, dr))
            if not (dt <= TOL * 50 * S and dr <= TOL * 50):
                run.violation(dict(key, op=name), '%s: deviation translation %.3g rotation %.3g (tol %.3g) result %r | case %r' % (name, dt, dr, TOL * 50 * S, np.asarray(res).tolist() if hasattr(res, '__len__') else res, c),
                              dict(case=c, expected=exp))
        # point action: pose (+) PoseRn and pose (+) ndarray
        int_pt = np.array([int(x) for x in c['pt']], dtype=np.int64)          # an integer-dtype array is a legal operand as well
        forms = [('a+PoseRn', PtCls(pt)), ('a+ndarray(point)', pt), ('a+ndarray(int point)', int_pt)]
        if all(abs(x) < 2 ** 24 for x in pt):
            forms.append(('a+ndarray(float32 point)', pt.astype(np.float32)))      # exactly representable: the result must keep float64 accuracy
        for name, arg in forms:
            if k in ('R2', 'R3') and name == 'a+PoseRn':
                pass
            try:
                res = a + arg
            except Exception as ex:  # noqa
                run.violation(dict(key, op=name), 'exception %r in %s | case %r' % (ex, name, c), dict(case=c))
                continue
            exp = PC.fv(obs['act'])
            dv = float(np.max(np.abs(np.asarray(res, dtype=float)[:len(exp)] - exp))) if np.asarray(res).shape == exp.shape else float('inf')
            okt = isinstance(res, PtCls)
            run.dev(dv / S)
            if not (dv <= TOL * 50 * S and okt):
                run.violation(dict(key, op=name), '%s: got %r (%s), exact %r | case %r' % (name, np.asarray(res).tolist(), type(res).__name__, exp.tolist(), c), dict(case=c))
        # boxplus with an integer-dtype increment (pure translation increment: rotation part zero)
        idelta = np.array([int(x) for x in c['dt']] + [0] * (B.CDIM[k] - B.DIM[k]), dtype=np.int64)
        try:
            r_int = a + idelta
            r_flt = a + idelta.astype(float)
            if all(abs(int(x)) < 2 ** 24 for x in idelta):
                r_f32 = a + idelta.astype(np.float32)
                if not np.allclose(np.asarray(r_f32, dtype=float), np.asarray(r_flt, dtype=float), rtol=0, atol=TOL * 50 * S) or type(r_f32) is not type(r_flt):
                    run.violation(dict(key, op='boxplus(float32 increment)'), 'a [+] float32 increment %r gives %r, with the same float64 increment %r | case %r' % (
                        idelta.tolist(), np.asarray(r_f32).tolist(), np.asarray(r_flt).tolist(), c), dict(case=c))
            if not np.allclose(np.asarray(r_int, dtype=float), np.asarray(r_flt, dtype=float), rtol=0, atol=TOL * 50 * S) or type(r_int) is not type(r_flt):
                run.violation(dict(key, op='boxplus(int increment)'), 'a [+] integer-dtype increment %r gives %r, with the same float increment %r | case %r' % (
                    idelta.tolist(), np.asarray(r_int).tolist(), np.asarray(r_flt).tolist(), c), dict(case=c))
        except Exception as ex:  # noqa
            run.violation(dict(key, op='boxplus(int increment)'), 'exception %r | case %r' % (ex, c), dict(case=c))
        # matrix form and homomorphism
        if hasattr(a, 'to_matrix'):
            Ma, Mb, Mab = a.to_matrix(), b.to_matrix(), (a + b).to_matrix()
            ea = np.array([[q[0] / q[1] for q in row] for row in obs['mat_a']])
            eab = np.array([[q[0] / q[1] for q in row] for row in obs['mat_ab']])
            d1 = float(np.max(np.abs(Ma - ea))) if Ma.shape == ea.shape else float('inf')
            d2 = float(np.max(np.abs(Ma @ Mb - eab))) if Ma.shape == ea.shape else float('inf')
            d3 = float(np.max(np.abs(Mab - eab))) if Mab.shape == eab.shape else float('inf')
            run.dev(max(d1, d2, d3) / S)
            if max(d1, d2, d3) > TOL * 50 * S:
                run.violation(dict(key, op='to_matrix'), 'to_matrix: dev to exact matrix %.3g, matrix product %.3g, matrix of a+b %.3g | case %r' % (d1, d2, d3, c), dict(case=c))
            if hasattr(type(a), 'from_matrix'):
                # the correspondence goes both ways: the pose of the exact matrices of a, of a (+) b and of a^-1 (whatever the sign of the angle)
                einv = np.linalg.inv(ea)
                for nm, M, exp in (('from_matrix(M(a))', ea, None), ('from_matrix(M(a) M(b))', eab, obs['comp']), ('from_matrix(M(a)^-1)', einv, obs['inv'])):
                    try:
                        res = type(a).from_matrix(M)
                        dt, dr = _dev_to_pose(res, a0, k) if exp is None else PC.pose_dev(res, exp)[:2]
                    except Exception as ex:  # noqa
                        run.violation(dict(key, op='from_matrix'), 'exception %r in %s | case %r' % (ex, nm, c), dict(case=c))
                        continue
                    run.dev(max(dt / S, dr))
                    if not (dt <= TOL * 50 * S and dr <= TOL * 50) or type(res) is not type(a):
                        run.violation(dict(key, op='from_matrix'), '%s: deviation translation %.3g rotation %.3g, result %r | case %r' % (nm, dt, dr, np.asarray(res).tolist(), c), dict(case=c))
        # operands untouched by all of the above
        if not (np.array_equal(np.array(a), a0) and np.array_equal(np.array(b), b0)):
            run.violation(dict(key, op='operand-mutation'), 'an operator changed one of its operands | case %r' % (c,), dict(case=c))
        # accessors
        acc_ok = np.array_equal(a.position, a0[:B.DIM[k]]) and np.array_equal(a.to_array(), a0) and np.array_equal(a.to_compact(), a0[:B.CDIM[k]])
        if k == 'SE3':
            acc_ok = acc_ok and np.array_equal(a.orientation, a0[3:])
        elif k == 'SE2':
            acc_ok = acc_ok and a.orientation == a0[2]
        else:
            acc_ok = acc_ok and a.orientation == 0.0
        if not acc_ok:
            run.violation(dict(key, op='accessors'), 'position/orientation/to_array/to_compact inconsistent with stored components | case %r' % (c,), dict(case=c))
        if run.replayed % 211 == 1:
            run.sample(dict(case=c, exact_compose=obs['comp'], code_compose=np.asarray(a + b).tolist(), exact_boxplus=obs['boxplus'], code_boxplus=np.asarray(a + d).tolist()))
    run.notes['tolerance'] = 'translation dev <= %g*S, rotation dev <= %g (S = largest translation magnitude of the case); quaternions compared up to sign' % (TOL * 50, TOL * 50)
    run.assumptions = ['inputs restricted to the rational lattice (DESIGN.md L1)', 'boxplus increments restricted to rotational parts with rational sqrt(1-|d|^2)',
                       'math.atan2 to turn a rational point of the circle into an angle']


def _t(obs, a0, k):
    return None


def _dev_to_pose(res, a0, k):
    arr = np.asarray(res, dtype=float)
    if arr.shape != a0.shape:
        return float('inf'), float('inf')
    n = B.DIM[k]
    dt = float(np.max(np.abs(arr[:n] - a0[:n])))
    if k == 'SE2':
        return dt, abs((arr[2] - a0[2] + np.pi) % (2 * np.pi) - np.pi)
    if k == 'SE3':
        return dt, min(float(np.max(np.abs(arr[3:] - a0[3:]))), float(np.max(np.abs(arr[3:] + a0[3:]))))
    return dt, 0.0


def replay(run, rep):
    check(run, cases=[rep['case']['case']])
