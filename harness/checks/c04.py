"""C04: linear (R^2/R^3) graphs are solved to the global weighted-least-squares optimum, whatever the initial guess."""
import contextlib
import io
import random
from fractions import Fraction

import numpy as np

from .. import build as B
from .. import edgecases as EC
from .. import graphcases as GC
from . import c03

FAR = {2: [(900, -700), (-512, 640), (333, 999)], 3: [(900, -700, 30), (-512, 640, -250), (333, 999, -1000)]}


def gen(tier, seed):
    rnd = random.Random(seed * 271 + 13)
    thorough = tier == 'thorough'
    groups = []
    for kind in ('R2', 'R3'):
        for n_poses in ((2, 3, 4, 5, 6, 8, 10) if thorough else (2, 3, 4, 6)):
            for _ in range(18 if thorough else 2):
                topo = ['tree', 'loop', 'multi'][len(groups) % 3]
                c = GC.gen_graph(rnd, kind, n_poses, rnd.choice([0, 1, 2]) if topo != 'tree' else rnd.choice([0, 1]), 0 if topo == 'tree' else rnd.choice([1, 3]),
                                 custom=False, fixed_mode=rnd.choice(['first', 'some', 'landmark']), fix_first=rnd.random() < 0.5,
                                 parallel_p=1.0 if topo == 'multi' else 0.0)
                if topo == 'tree':
                    # keep only the first landmark edge per landmark so that the graph stays a tree
                    seen = set()
                    keep = []
                    for e in c['edges']:
                        if e['cls'] == 'lm':
                            if e['vs'][1] in seen:
                                continue
                            seen.add(e['vs'][1])
                        keep.append(e)
                    c['edges'] = keep
                if not GC.components_fixed(c):
                    continue
                if len(groups) % 7 == 3:
                    # the fixed subset is the WHOLE vertex set: nothing moves, and the report states the chi^2 of that configuration
                    for v in c['verts']:
                        v['fixed'] = True
                if rnd.random() < 0.5:
                    c, _ = GC.permute(c, rnd)
                # several initial guesses for the FREE vertices (fixed vertices are constants of the problem)
                guesses = [c]
                for far in (False, True):
                    g2 = dict(c, verts=[dict(v) for v in c['verts']])
                    for j, v in enumerate(g2['verts']):
                        if not (v['fixed'] or (c['fixFirst'] and j == 0)):
                            v['t'] = list(rnd.choice(FAR[B.DIM[kind]]) if far else rnd.choice(EC.T2 if B.DIM[kind] == 2 else EC.T3))
                    guesses.append(g2)
                groups.append(guesses)
    return groups


def exact_optimum(c, obs):
    """x* = x0 + dx and chi2* = chi2_0 + b.dx, exactly (Fractions)."""
    H = [[Fraction(q[0], q[1]) for q in row] for row in obs['H']]
    b = [Fraction(q[0], q[1]) for q in obs['b0']]
    nf = len(H)
    chi0 = sum(Fraction(f['c0'][0], f['c0'][1]) for f in obs['chi2'])
    x0 = []
    for v in c['verts']:
        x0 += [Fraction(t) for t in v['t']]
    if nf == 0:
        return x0, chi0, 1.0
    sol = GC.fsolve(H, [[-x for x in b]])
    if sol is None:
        return None, None, float('inf')
    dx = sol[0]
    x = list(x0)
    for a, r in enumerate(obs['free']):
        x[r - 1] += dx[a]
    chi = chi0 + sum(bi * di for bi, di in zip(b, dx))
    cond = float(np.linalg.cond(np.array([[float(y) for y in row] for row in H])))
    return x, chi, cond


def check(run):
    groups = gen(run.tier, run.seed)
    flat = [dict(c, conv='canon', grp=gi, gj=j) for gi, grp in enumerate(groups) for j, c in enumerate(grp)]
    old = EC.headroom_class
    EC.headroom_class = lambda c: (c['grp'],)
    try:
        K = max(GC.needed_K(c) for c in flat)
        pairs = EC.evaluate(flat, K, 'MC_C04', run, spec='MC_Assembly', invariants=('Symmetric',), max_retry=80)
    finally:
        EC.headroom_class = old
    bygrp = {}
    for c, obs in pairs:
        bygrp.setdefault(c['grp'], []).append((c, obs))
    topo = {'tree': 0, 'loop': 0, 'multi_edge': 0, 'landmark_offset_edges': 0, 'far_guess': 0, 'history_two_calls': 0, 'shared_initial_object': 0}
    for gi, items in sorted(bygrp.items()):
        ref = None
        for c, obs in items:
            run.replayed += 1
            x, chi, cond = exact_optimum(c, obs)
            if x is None or cond > 1e8:
                run.skip('reduced system singular / ill-conditioned')
                continue
            # model-level theorem: the optimum does not depend on the initial guess (exact equality)
            if ref is None:
                ref = (x, chi)
            elif ref[0] != x or ref[1] != chi:
                raise RuntimeError('model inconsistency: exact optimum depends on the initial guess (group %d)' % gi)
            ne, nv = len(c['edges']), len(c['verts'])
            pairs_seen = [frozenset(e['vs']) for e in c['edges']]
            topo['multi_edge'] += len(set(pairs_seen)) < len(pairs_seen)
            topo['tree'] += len(set(pairs_seen)) <= nv - 1
            topo['loop'] += len(set(pairs_seen)) > nv - 1
            topo['landmark_offset_edges'] += any(e['cls'] == 'lm' for e in c['edges'])
            topo['far_guess'] += c['gj'] == 2
            cc = {k: v for k, v in c.items() if k not in ('grp', 'gj', 'conv')}
            sc = [1.0, 2.0 ** -30, 2.0 ** 20][(gi + 2 * c['gj']) % 3]          # a common factor of all information matrices does not move the optimum
            g = GC.build_graph(cc, random.Random(gi).choice(GC.ID_MAPS), info_scale=sc)
            # Far-frame dimension: the whole graph (fixed and free vertices) sits 2^32 units from the origin (geocentric / UTM coordinates in mm).
            # The problem is translation invariant: the optimum moves along exactly; accuracy is then limited by the ulp of the coordinates.
            shift = np.zeros(len(cc['verts'][0]['t']))
            if gi % 3 != 0 and c['gj'] in (0, 1):
                shift = np.array([2.0 ** 32, -(2.0 ** 32), 2.0 ** 31][:len(shift)])
                for v in g._vertices:
                    v.pose = type(v.pose)(np.asarray(v.pose, dtype=float) + shift)
                topo['far_frame'] = topo.get('far_frame', 0) + 1
            astro = gi % 2 == 0 and c['gj'] == 2 and not shift.any()
            if astro:
                # an astronomically bad initial guess (1e160): chi^2 overflows to inf at first, the optimum is where it always was
                for v, vc, j in zip(g._vertices, cc['verts'], range(len(cc['verts']))):
                    if not (vc['fixed'] or (c['fixFirst'] and j == 0)):
                        v.pose = type(v.pose)(np.array([1e160, -3e159, 2e160][:len(v.pose)]) * (1 + j))
                topo['astronomic_guess'] = topo.get('astronomic_guess', 0) + 1
            key = dict(kind=c['verts'][0]['k'], guess=['lattice', 'near', 'far'][c['gj']], far_frame=bool(shift.any()), astronomic=astro)
            hist = ['none', 'two-calls', 'shared-initial-object'][(gi + c['gj']) % 3]
            fxd = [bool(v['fixed']) or (c['fixFirst'] and j == 0) for j, v in enumerate(cc['verts'])]
            free_v = [v for v, f in zip(g._vertices, fxd) if not f]
            try:
                if hist == 'two-calls' and fxd[0] and sum(fxd) >= 2 and gi % 2 == 0:
                    # History: the user has fixed the first listed vertex himself (and others); a first call with the defaults (fix_first_pose=True)
                    # must leave that flag as the user set it, so that a second call with fix_first_pose=False still solves the same problem.
                    start = [v.pose.copy() for v in g._vertices]
                    g._vertices[0].fixed = True
                    with contextlib.redirect_stdout(io.StringIO()):
                        g.optimize(verbose=False)
                    for v, p, f in zip(g._vertices, start, fxd):
                        if not f:
                            v.pose = p + np.array([0.5, -0.25, 1.0][:len(p)])
                    topo['history_two_calls'] = topo.get('history_two_calls', 0) + 1
                    topo['history_user_fixed_first_then_fix_first_false'] = topo.get('history_user_fixed_first_then_fix_first_false', 0) + 1
                    with contextlib.redirect_stdout(io.StringIO()):
                        ret = g.optimize(fix_first_pose=False, verbose=False)
                elif hist == 'two-calls' and len(free_v) >= 2 and gi % 2 == 1:
                    # History: the first call solves a MORE constrained problem (one free vertex held at its initial guess by the user); the vertex is then
                    # released.  chi^2 does not rise by releasing it, the optimum moves: the second call must solve the case's own problem from there.
                    free_v[0].fixed = True
                    with contextlib.redirect_stdout(io.StringIO()):
                        g.optimize(fix_first_pose=c['fixFirst'], verbose=False)
                    free_v[0].fixed = False
                    topo['history_two_calls'] = topo.get('history_two_calls', 0) + 1
                    topo['history_released_vertex'] = topo.get('history_released_vertex', 0) + 1
                elif hist == 'two-calls' and len(free_v) >= 2:
                    # History: an earlier optimize() on the same Graph; then one free vertex (now at its optimal position) is marked fixed and the
                    # others are moved to a new guess.  Fixing a vertex AT the optimum does not change the optimum of the others.
                    start = [v.pose.copy() for v in g._vertices]
                    with contextlib.redirect_stdout(io.StringIO()):
                        g.optimize(fix_first_pose=c['fixFirst'], verbose=False)
                    free_v[0].fixed = True
                    for v, p in zip(g._vertices, start):
                        if v is not free_v[0] and v in free_v:
                            v.pose = p + np.array([0.5, -0.25, 1.0][:len(p)])
                    topo['history_two_calls'] = topo.get('history_two_calls', 0) + 1
                elif hist == 'shared-initial-object' and len(free_v) >= 2:
                    # History-free aliasing: all free vertices are initialised with ONE pose object (any initial guess is allowed)
                    shared = free_v[0].pose
                    for v in free_v:
                        v.pose = shared
                    topo['shared_initial_object'] = topo.get('shared_initial_object', 0) + 1
                if not (hist == 'two-calls' and fxd[0] and sum(fxd) >= 2 and gi % 2 == 0):
                    with contextlib.redirect_stdout(io.StringIO()):
                        if c['gj'] == 0 and hist == 'none' and not astro:
                            # a linear problem is solved by ONE step: a run cut at max_iter=1 (tol 0, silent) ends at the optimum and reports its chi^2
                            ret = g.optimize(tol=0.0, max_iter=1, fix_first_pose=c['fixFirst'], verbose=False)
                            topo['one_step_runs'] = topo.get('one_step_runs', 0) + 1
                        else:
                            ret = g.optimize(fix_first_pose=c['fixFirst'], verbose=False)
            except Exception as ex:  # noqa
                run.violation(dict(key, outcome='raised'), 'optimize raised %r | case %r' % (ex, cc), dict(case=cc))
                continue
            got = np.concatenate([np.asarray(v.pose, dtype=float) - shift for v in g._vertices])
            want = np.array([float(y) for y in x])
            scale = 1.0 + float(np.max(np.abs(np.concatenate([want, np.array([float(t) for v in c['verts'] for t in v['t']])]))))
            tol = 1e-9 * scale * max(1.0, cond * 1e-2)
            if shift.any():
                tol = 256 * np.finfo(float).eps * 2.0 ** 32 * max(1.0, cond)          # (a few hundred ulp of the coordinates, times the conditioning)
            dv = float(np.max(np.abs(got - want)))
            run.dev(dv / scale)
            run.count(key=repr(cc), nontrivial=len(obs['free']) > 0)
            if dv > tol:
                run.violation(dict(key, outcome='not-optimum'), 'final poses deviate from the exact minimiser by %.3g (> %.3g, cond %.3g): got %r want %r | case %r' % (
                    dv, tol, cond, got.tolist(), want.tolist(), cc), dict(case=cc, exact_optimum=[str(y) for y in x]))
                continue
            chif = float(chi) * sc
            if ret.final_chi2 is None or not np.isfinite(float(ret.final_chi2)) or ret.initial_chi2 is None:
                run.violation(dict(key, outcome='final-chi2'), 'the report states initial_chi2 %r / final_chi2 %r, exact chi2 at the optimum %r | case %r' % (ret.initial_chi2, ret.final_chi2, chif, cc), dict(case=cc))
            elif abs(ret.final_chi2 - chif) > (1e-7 * (1.0 + abs(chif) / sc) + 1e-9 * scale ** 2) * sc:
                run.violation(dict(key, outcome='final-chi2'), 'final_chi2 %r, exact chi2 at the optimum %r | case %r' % (ret.final_chi2, chif, cc), dict(case=cc))
            if run.replayed % 19 == 1:
                run.sample(dict(case=cc, exact_optimum=[str(y) for y in x], exact_chi2=str(chi), code_final_chi2=ret.final_chi2, code_iterations=ret.num_iterations))
    run.notes['topologies'] = topo
    large_tree(run)
    if min(topo.values()) == 0:
        raise RuntimeError('vacuity guard: %r' % topo)
    run.rule = ('R^2/R^3 lattice graphs (trees, loops, multi-edges, point-to-point landmark edges with offsets, 2..10 vertices, random fixed subsets >= 1 per '
                'component, SPD information incl. cross terms, inconsistent measurements) each from three initial guesses (lattice, near, far ~1e3); TLC assembles '
                'the reduced normal equations exactly at each guess; exact optimum x0 + dx and chi2* = chi2_0 + b.dx (Fractions), checked identical across the '
                'guesses; optimize() with default tol/max_iter must end there; non-trivial = distinct (graph, guess) with free coordinates')
    run.assumptions = ['exact Fraction solve of the reduced system', 'the converged flag is not part of this property (at chi2* = 0 the relative test is decided by rounding)']


def large_tree(run, one_step=False):
    """Size dimension: a tree-shaped R^3 graph with thousands of vertices and integer measurements.  On a tree every measurement can be met
    exactly, so the optimum is known in closed form whatever the information matrices: vertex = root + sum of the measurements along its path
    (chi^2 = 0).  Nothing in the property depends on the size of the graph."""
    from graphslam.edge.edge_odometry import EdgeOdometry
    from graphslam.graph import Graph
    from graphslam.pose.r3 import PoseR3
    from graphslam.vertex import Vertex
    import time
    rnd = random.Random(run.seed + 77)
    sizes = (7001, 20001) if run.tier == 'thorough' else (7001,)
    infos = [np.diag([1.0, 2.0, 3.0]), np.array([[2.0, 1.0, 0.0], [1.0, 2.0, 0.0], [0.0, 0.0, 1.0]]), np.array([[4.0, 1.0, 1.0], [1.0, 3.0, 0.0], [1.0, 0.0, 2.0]])]
    for n in sizes:
        t0 = time.time()
        truth = [np.array([float(rnd.randint(-5, 5)) for _ in range(3)])]
        edges = []
        for j in range(1, n):
            par = rnd.randrange(max(0, j - 50), j)
            z = np.array([float(rnd.randint(-9, 9)) for _ in range(3)])
            truth.append(truth[par] + z)
            if rnd.random() < 0.5:
                edges.append(EdgeOdometry([par, j], infos[j % 3].copy(), PoseR3(z)))
            else:
                edges.append(EdgeOdometry([j, par], infos[j % 3].copy(), PoseR3(-z)))
        verts = [Vertex(0, PoseR3(truth[0]))] + [Vertex(j, PoseR3(truth[j] + np.array([rnd.uniform(-3, 3) for _ in range(3)]))) for j in range(1, n)]
        tail = verts[1:]
        rnd.shuffle(tail)
        rnd.shuffle(edges)
        g = Graph(edges, [verts[0]] + tail)
        key = dict(part='large-tree', vertices=n, one_step=one_step)
        try:
            with contextlib.redirect_stdout(io.StringIO()):
                # (one_step, for C03: on a linear graph ONE Gauss-Newton step from any state lands on the optimum; report chi^2 afterwards)
                ret = g.optimize(tol=0.0, max_iter=1, verbose=False) if one_step else g.optimize(verbose=False)
        except Exception as ex:  # noqa
            run.violation(dict(key, outcome='raised'), 'optimize raised %r on a tree with %d R^3 vertices' % (ex, n), dict(vertices=n, seed=run.seed))
            continue
        worst = max(float(np.max(np.abs(np.asarray(v.pose, dtype=float) - truth[v.id]))) for v in g._vertices)
        run.replayed += 1
        run.count(key=('large-tree', n), nontrivial=True)
        run.notes.setdefault('large_trees', []).append({'vertices': n, 'unknowns': 3 * n, 'max_deviation_from_closed_form': worst, 'final_chi2': float(ret.final_chi2),
                                                        'iterations': int(ret.num_iterations), 'seconds': round(time.time() - t0, 1)})
        if not (worst <= 1e-8) or not (abs(ret.final_chi2) <= 1e-12):
            run.violation(dict(key, outcome='not-optimum'), 'tree with %d R^3 vertices (%d unknowns): final poses deviate from root + path sums by %.3g, final chi2 %r (exact optimum: 0)' % (
                n, 3 * n, worst, ret.final_chi2), dict(vertices=n, seed=run.seed))


def replay(run, rep):
    check(run)
