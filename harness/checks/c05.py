"""C05: local convergence to a stationary point on SE(2)/SE(3) (designed lattice optima certified by TLC; binding A + B report)."""
import contextlib
import io
import random
from fractions import Fraction

import numpy as np

from .. import build as B
from .. import design
from .. import edgecases as EC
from .. import graphcases as GC


def check(run):
    thorough = run.tier == 'thorough'
    rnd = random.Random(run.seed * 53 + 23)
    cases = []
    sizes = (3, 4, 6, 10, 16, 25, 40) if thorough else (3, 4, 6, 9)
    for kind in ('SE2', 'SE3'):
        for n in sizes:
            for noisy in (False, True):
                for _ in range((3 if n <= 10 else 1) if thorough else 2):
                    dsg = design.gen_design(rnd, kind, n, rnd.randint(0, 3), rnd.randint(1, max(1, n // 2)), noisy)
                    if rnd.random() < 0.5:
                        extra = {k: dsg[k] for k in ('gradOnly', 'conv', 'noisy')}
                        base = {k: v for k, v in dsg.items() if k not in extra}
                        for _try in range(20):        # any list order whose first LISTED vertex (the anchor) is a pose: a fixed point alone leaves a gauge freedom
                            dsg, _ = GC.permute(base, rnd)
                            if dsg['verts'][0]['k'] == kind:
                                break
                        else:
                            dsg = base
                        dsg.update(extra)
                    cases.append(dsg)
    old = EC.headroom_class
    EC.headroom_class = lambda c: (id(c),)
    try:
        K = max(GC.needed_K(c) for c in cases)
        pairs = EC.evaluate(cases, K, 'MC_C05', run, spec='MC_Assembly', invariants=(), max_retry=80)
    finally:
        EC.headroom_class = old
    stats = {'designs': 0, 'rejected_not_stationary': 0, 'noise_free': 0, 'noisy_stationary': 0, 'runs': 0, 'unjudged_other_minimum': 0, 'max_iterations_used': 0}
    for c, obs in pairs:
        stats['designs'] += 1
        # the specification decides whether the proposed ground truth is a stationary point, and what chi^2 is there
        b0_zero = all(q[0] == 0 for q in obs['b0'])
        atoms_zero = all(a[1][0] == 0 and a[0][0] > 0 for a in obs['atoms'])
        b1_zero = all(all(q[0] == 0 for q in col) for col in obs['B1'])
        if not (b0_zero and (atoms_zero or b1_zero)):
            stats['rejected_not_stationary'] += 1
            continue
        chi_star = Fraction(0)
        for f in obs['chi2']:
            chi_star += Fraction(f['c0'][0], f['c0'][1])       # all angle atoms are zero here
        if not atoms_zero:
            stats['rejected_not_stationary'] += 1
            continue
        chi_star = float(chi_star)
        if c['noisy'] and chi_star == 0:
            continue
        if not c['noisy'] and chi_star != 0:
            raise RuntimeError('design error: noise-free design has chi2* = %r according to the specification' % chi_star)
        stats['noise_free' if chi_star == 0 else 'noisy_stationary'] += 1
        cc = {k: v for k, v in c.items() if k not in ('gradOnly', 'conv', 'noisy')}
        for tol in ((1e-10, 1e-6, 1e-3) if thorough else (1e-10, 1e-3)):
            # Units dimension: every third run has ALL information matrices scaled by 2^-20 (weak weights / other units: chi^2 << 1 although the
            # state is far from the optimum).  Stationary points, the Gauss-Newton iterates and the RELATIVE stopping rule do not depend on it.
            sc = 2.0 ** -20 if stats['runs'] % 3 == 1 else 1.0
            g = GC.build_graph(cc, info_scale=sc)
            stats['runs_with_weak_information'] = stats.get('runs_with_weak_information', 0) + (sc != 1.0)
            if stats['runs'] % 4 == 1 and len(g._vertices) >= 3:
                # History dimension: the caller re-orders the tail of the vertex list it handed over (the Graph keeps that very list); the
                # position of a vertex's unknowns in the normal equations was fixed at construction and must not be re-derived from list positions
                lst = g._vertices
                lst[-1], lst[-2] = lst[-2], lst[-1]
                stats['vertex_list_reordered_after_construction'] = stats.get('vertex_list_reordered_after_construction', 0) + 1
            if stats['runs'] % 5 == 2:
                # Far-frame dimension: the whole map sits ~3e4 units from the origin (a translation of the world frame changes no measurement):
                # stationary points, iterates and the relative stopping rule do not depend on where the origin is
                for v in g._vertices:
                    dd = B.DIM[B.KIND_OF[type(v.pose)]]
                    v.pose[:dd] = np.asarray(v.pose)[:dd] + np.array([1.0e4, -2.0e4, 3.0e4][:dd])
                stats['runs_in_a_far_frame'] = stats.get('runs_in_a_far_frame', 0) + 1
            truth = [v.pose.copy() for v in g._vertices]
            # initial guess inside the calibrated neighbourhood: translation <= 0.3 per axis, rotation <= 0.15 rad
            for j, v in enumerate(g._vertices):
                if j == 0 or v.fixed:
                    continue            # anchors (the first listed vertex, fixed landmarks) stay at their true position
                k = B.KIND_OF[type(v.pose)]
                d = [rnd.uniform(-0.3, 0.3) for _ in range(B.DIM[k])]
                if k == 'SE2':
                    d.append(rnd.uniform(-0.15, 0.15))
                elif k == 'SE3':
                    ax = np.array([rnd.gauss(0, 1) for _ in range(3)])
                    ax = ax / np.linalg.norm(ax) * np.sin(rnd.uniform(-0.15, 0.15) / 2)
                    d += list(ax)
                v.pose = v.pose + np.array(d)
            history = stats['runs'] % 3 == 2
            if history and len(g._vertices) > 2:
                # History dimension: the same Graph object was optimised before with an extra vertex anchored at its (perturbed) initial guess;
                # the anchor is then released.  The next run must still end at the certified optimum (no stale fixed set).
                anchor = g._vertices[-1] if rnd.random() < 0.5 else g._vertices[1]
                start = [v.pose.copy() for v in g._vertices]
                anchor.fixed = True
                with contextlib.redirect_stdout(io.StringIO()):
                    g.optimize(tol=1e-3, max_iter=3, verbose=False)
                anchor.fixed = False
                for v, p in zip(g._vertices, start):
                    v.pose = p
                stats['histories_with_released_anchor'] = stats.get('histories_with_released_anchor', 0) + 1
            before = float(g.calc_chi2())
            key = dict(kind=c['verts'][0]['k'], noisy=c['noisy'], tol=tol)
            try:
                with contextlib.redirect_stdout(io.StringIO()):
                    ret = g.optimize(tol=tol, max_iter=50, verbose=False)
            except Exception as ex:  # noqa
                run.violation(dict(key, outcome='raised'), 'optimize raised %r' % (ex,), dict(case=cc))
                continue
            coordmax = max(float(np.max(np.abs(np.asarray(v.pose, dtype=float)[:B.DIM[B.KIND_OF[type(v.pose)]]]))) for v in g._vertices)
            wm = max(sum(abs(x) for x in row) for e in cc['edges'] for row in e['W']) * sc
            rounding_floor = len(cc['edges']) * wm * (64 * np.finfo(float).eps * (1.0 + coordmax)) ** 2
            if not ret.converged and chi_star == 0 and float(ret.final_chi2) <= rounding_floor:
                # chi^2 has reached the level of the rounding of the coordinates (exact optimum 0): there the RELATIVE test is decided by noise and
                # the `converged` flag says nothing -- the state is judged below like a converged one
                stats['runs_ending_at_the_rounding_floor'] = stats.get('runs_ending_at_the_rounding_floor', 0) + 1
            elif not ret.converged:
                # "max_iter large enough": Gauss-Newton converges only linearly at an optimum with non-zero residual; let the run continue
                # (the report of the first call is still checked below against calc_chi2 before the continuation)
                first = ret
                after_first = float(g.calc_chi2())
                if not (first.final_chi2 == after_first or abs(first.final_chi2 - after_first) <= 1e-12 * (1e-300 + after_first)):
                    run.violation(dict(key, outcome='report'), 'final chi2 of the report %r is not calc_chi2() after the call %r' % (first.final_chi2, after_first), dict(case=cc))
                    continue
                with contextlib.redirect_stdout(io.StringIO()):
                    ret2 = g.optimize(tol=tol, max_iter=1000, fix_first_pose=True, verbose=False)
                stats['continued_runs'] = stats.get('continued_runs', 0) + 1
                if not ret2.converged:
                    run.violation(dict(key, outcome='no-convergence'), 'no convergence within 1050 iterations from inside the calibrated neighbourhood (chi2 %r, certified optimum %r; the unchanged tree needs at most ~70)' % (
                        ret2.final_chi2, chi_star), dict(case=cc, tol=tol))
                    continue

                class _R:
                    pass
                r = _R()
                r.initial_chi2, r.final_chi2, r.num_iterations, r.converged = first.initial_chi2, ret2.final_chi2, first.num_iterations + ret2.num_iterations, True
                ret = r
            after = float(g.calc_chi2())
            stats['runs'] += 1
            stats['max_iterations_used'] = max(stats['max_iterations_used'], ret.num_iterations)
            run.replayed += 1
            run.count(key=(repr(cc), tol), nontrivial=True)
            scale = 1.0 + max(abs(x) for v in cc['verts'] for x in v['t'])
            # (an inherited numerical Jacobian restores the perturbed pose through copy(), which re-wraps an SE(2) heading: poses may move by an
            #  ulp WHILE the report's chi^2 is being accumulated; the allowance below is the effect of a 1e-14*scale change of the errors)
            wmax = max(sum(abs(x) for x in row) for e in cc['edges'] for row in e['W']) * sc
            de = 1e-14 * scale
            slack = lambda x: 1e-12 * x + 2.0 * (x * wmax) ** 0.5 * de + wmax * de * de      # noqa
            if not (ret.initial_chi2 == before or abs(ret.initial_chi2 - before) <= slack(before)) or not (ret.final_chi2 == after or abs(ret.final_chi2 - after) <= slack(after)):
                run.violation(dict(key, outcome='report'), 'initial/final chi2 of the report (%r, %r) are not calc_chi2() before/after (%r, %r)' % (ret.initial_chi2, ret.final_chi2, before, after), dict(case=cc))
                continue
            if not (ret.final_chi2 <= ret.initial_chi2 * (1 + 1e-12)):
                run.violation(dict(key, outcome='chi2-increased'), 'final chi2 %r exceeds initial chi2 %r (start inside the calibrated neighbourhood)' % (ret.final_chi2, ret.initial_chi2), dict(case=cc))
                continue
            cs = chi_star * sc
            floor = (1e-9 * (1 + chi_star) + 1e-12) * sc
            if ret.final_chi2 < cs - floor:
                stats['unjudged_other_minimum'] += 1
                continue
            gap = ret.final_chi2 - cs
            if gap > 10 * tol * ret.final_chi2 + 1e-12 * (1 + chi_star) * scale ** 2 * sc:
                run.violation(dict(key, outcome='not-stationary'), 'ended at chi2 %r, the stationary point certified by the specification has chi2 %r (gap %.3g, tol %g, %d iterations, converged=%s, information x %g)' % (
                    ret.final_chi2, cs, gap, tol, ret.num_iterations, ret.converged, sc), dict(case=cc, tol=tol, info_scale=sc))
                continue
            if chi_star == 0:
                worst = 0.0
                for v, p in zip(g._vertices, truth):
                    dd = np.array(v.pose) - np.array(p)
                    if len(dd) == 7:
                        dd[3:] = dd[3:] if np.max(np.abs(dd[3:])) <= np.max(np.abs(np.array(v.pose)[3:] + np.array(p)[3:])) else np.array(v.pose)[3:] + np.array(p)[3:]
                    elif len(dd) == 3 and B.KIND_OF[type(v.pose)] == 'SE2':
                        dd[2] = (dd[2] + np.pi) % (2 * np.pi) - np.pi
                    worst = max(worst, float(np.max(np.abs(dd))))
                run.dev(worst / scale)
                if worst > 1e-6 * scale:
                    run.violation(dict(key, outcome='ground-truth'), 'noise-free graph: optimised poses deviate from the ground truth by %.3g' % worst, dict(case=cc, tol=tol))
        if stats['designs'] % 7 == 1:
            run.sample(dict(design=cc, certified_chi2_at_optimum=chi_star, stationary=True))
    run.notes['designs'] = stats
    if stats['noise_free'] == 0 or stats['noisy_stationary'] == 0 or stats['runs'] == 0:
        raise RuntimeError('vacuity guard: %r' % stats)
    run.rule = ('designed optima on the lattice: ground truth over the closed groups (C4 / Hurwitz, integer translations), chains with loop closures and landmarks with '
                'rotated offsets, SPD information with cross terms; (a) exact measurements, (b) pairs of parallel edges with opposite translation noise / opposite '
                'landmark noise. TLC evaluates gradient and chi^2 at the proposed optimum EXACTLY and only designs it certifies stationary are used; real runs start '
                'inside the calibrated neighbourhood (0.3 / 0.15 rad), tol in {1e-10,1e-6,1e-3}, max_iter 50: report = calc_chi2() before/after, chi2 does not '
                'increase, optimality gap to the certified chi2* <= 10 tol chi2, noise-free poses = ground truth; non-trivial = every run')
    run.assumptions = ['stationarity at a generic noisy optimum (not a lattice point) is not evaluated by the oracle (L2)', 'no claim outside the calibrated neighbourhood',
                       'a run ending below the certified chi2* (another minimum) is counted unjudged, never a violation']


def replay(run, rep):
    check(run)
