"""C12: faithful optimization report, documented stopping rule, no hidden state (PlusCal model of the loop + trace validation)."""
import random

from .. import scenario, tlc

TEMPLATES = ['r2', 'se2', 'se3', 'se2c', 'mixed', 'se2far', 'se2fix', 'se3fix', 'r3', 'se3big', 'se2weighted', 'se2plain', 'se3reg', 'se2desc', 'se3desc', 'se2allfix']


def model_check(run, max_iter, max_start):
    """The loop (PlusCal) returns what the closed form says, terminates, and splitting holds: for every stop function."""
    cfg = 'SPECIFICATION Spec\nCONSTANTS\n MaxIter = %d\n MaxStart = %d\nINVARIANT ReportCorrect\nPROPERTY Termination\n' % (max_iter, max_start)
    res = tlc.run('MC_OptControl', cfg, coverage=True, timeout=1800)
    if res.violation:
        raise tlc.TLCError('OptControl: %s violated\n%s' % (res.violation, res.out[-1500:]))
    run.add_tlc(res, 'MC_OptControl (MaxIter=%d, MaxStart=%d: ReportCorrect, Termination, ASSUME SplitTheorem)' % (max_iter, max_start))
    for act in ('Loop', 'Assemble', 'Check', 'Solve', 'Update', 'Final', 'Ret'):
        if res.coverage.get('OptLoop!' + act, 0) == 0:
            raise tlc.TLCError('vacuity guard: action %s of OptControl never taken (%r)' % (act, res.coverage))
    run.notes['optcontrol_action_coverage'] = {k: v for k, v in res.coverage.items() if k.startswith('OptLoop!') and k.split('!')[1][0].isupper()}
    res.cleanup()
    # model mutant: a report that counts the incomplete last iteration must be caught (vacuity guard on the theorem itself)
    cfg2 = 'SPECIFICATION Spec\nCONSTANTS\n MaxIter = 3\n MaxStart = 1\nINVARIANT MutantReport\n'
    r2 = tlc.run('MC_OptControl', cfg2, timeout=600)
    r2.cleanup()
    if not r2.violation:
        raise tlc.TLCError('vacuity guard: the model mutant (num_iterations + 1 on early stop) was NOT caught')
    run.notes['model_mutant_caught'] = True
    # beyond the bound: TLAPS proves an inductive invariant of the loop for EVERY MaxIter / MaxStart / stop function (final_chi2 is the chi^2 of the
    # returned state; 1 <= num_iterations <= max_iter)
    run.notes['tlaps'] = tlc.tlapm('OptControlProofs')


def check(run):
    thorough = run.tier == 'thorough'
    model_check(run, 10 if thorough else 6, 2)
    rnd = random.Random(run.seed + 99)

    def split_fn(m, nopt, sid):
        if m < 2:
            return None
        parts, left = [], m
        while left > 0:
            p = rnd.randint(1, left)
            parts.append(p)
            left -= p
        return parts if len(parts) > 1 else [1, m - 1]
    max_iters = (1, 2, 3, 5, 8, 13, 30) if thorough else (1, 2, 3, 4, 6)
    tols = ('0', '1e-12', '1e-8', '1e-4', '1e-2', '1e-1', 'stop:1', 'stop:2', 'stop:3', 'stop:5') if thorough else ('0', '1e-12', '1e-4', '1e-1', 'stop:1', 'stop:2', 'stop:3')
    behaviours = scenario.generate(run, TEMPLATES + (['se2huge'] if thorough else []), run.seed, 600 if thorough else 90, 16, max_iters=max_iters, tols=tols, workers=8, edits=True)
    # hand-written behaviours guarantee every class of the vacuity guard whatever the seed: early stops, runs ending at max_iter,
    # diverging steps, split comparisons
    def opt(m, tol, vb=False, ff=True):
        return {'op': 'OptCall', 'maxIter': m, 'fixFirst': ff, 'verbose': vb, 'tol': tol, 'q': '-', 'target': 0, 'idx': 0, 'flag': False}
    behaviours += [('se2', [opt(6, '1e-4', True), opt(3, '0')]), ('se3', [opt(4, '0', True), opt(6, 'stop:2')]), ('se2far', [opt(6, '0'), opt(4, '1e-1', True)]),
                   ('r2', [opt(3, '0'), opt(4, '1e-12')]), ('se2', [opt(1, '0', False, False)]),
                   ('r2', [opt(4, '0', False, False), opt(3, '1e-4', True, False)]), ('r3', [opt(5, '1e-4', False, False)]), ('r2iso', [opt(3, '1e-2', False, False)]),
                   ('se2allfix', [opt(3, '1e-4', True), opt(4, '0'), opt(2, '1e-1', False, False)]),        # nothing is free: the documented rule applies all the same
                   ('se2weighted', [opt(4, '1e-4', True), opt(3, '0')]), ('r2lonely', [opt(4, '1e-4'), opt(3, '0', True)]), ('se3lonely', [opt(3, '1e-2', True), opt(2, '0')])]
    events = []
    sessions = scenario.play(behaviours, run.seed, events, twin_every=1, split_fn=split_fn)
    rejects = scenario.validate(run, events)
    run.replayed = len(sessions)
    byid = {(e['sid'], e['seq']): e for e in events}
    stats = {'opt_calls': 0, 'early_stop': 0, 'max_iter_reached': 0, 'converged_at_limit': 0, 'diverging_step': 0, 'nan_runs': 0, 'splits_compared': 0,
             'ambiguous_classes': 0, 'stop_positions': {}}
    for e in events:
        if e['op'] != 'OptCall':
            continue
        det = sessions[e['sid']].details[e['seq']]
        stats['opt_calls'] += 1
        r = e['rep']
        early = r['lenResults'] == r['numIter'] + 1
        stats['early_stop'] += early
        stats['max_iter_reached'] += not early
        stats['converged_at_limit'] += (not early) and r['converged']
        c = det['chi2s']
        stats['diverging_step'] += any(c[k + 1] > c[k] for k in range(len(c) - 1))
        stats['nan_runs'] += det['nan']
        stats['splits_compared'] += 'split' in det
        stats['ambiguous_classes'] += e['cls'].count('A')
        if early:
            stats['stop_positions'][str(r['numIter'])] = stats['stop_positions'].get(str(r['numIter']), 0) + 1
        run.count(key=(e['sid'], e['seq']), nontrivial=e['maxIter'] > 1 or early)
    run.notes['optimizer_runs'] = stats
    for sid, seq, clause in rejects:
        if clause not in ('opt-report', 'opt-split', 'opt-verbose', 'opt-fresh') + ('opt-raised',):
            continue
        ev = byid[(sid, seq)]
        s = sessions[sid]
        det = s.details.get(seq, {})
        run.violation(dict(clause=clause, template=s.template, nan=det.get('nan')),
                      'trace rejected at session %d event %d: clause %s | max_iter=%d tol=%r verbose=%s stop-classes=%r observed report %r | observed chi2 sequence %r reported %r' % (
                          sid, seq, clause, ev['maxIter'], det.get('tol'), ev['verbose'], ev['cls'], ev['rep'], det.get('chi2s'), det.get('report')),
                      dict(event={k: v for k, v in ev.items() if k not in ('verts', 'edges')}, detail=det, template=s.template))
    # (the vacuity guard comes after the verdicts: a library whose every call is rejected must be reported as that, not as vacuous machinery)
    if not run.violations and (stats['early_stop'] == 0 or stats['max_iter_reached'] == 0 or stats['diverging_step'] == 0 or stats['splits_compared'] == 0):
        raise RuntimeError('vacuity guard: %r' % stats)
    ex = [e for e in events if e['op'] == 'OptCall'][:3]
    for e in ex:
        run.sample({k: v for k, v in e.items() if k not in ('verts', 'edges')})
    run.rule = ('(i) TLC checks the PlusCal mirror of optimize against the closed form Outcome for every stop function, start state and max_iter (invariant '
                'ReportCorrect, Termination, splitting theorem for every composition); (ii) optimizer calls along TLC-generated scenarios on converging, '
                'diverging and NaN runs, tol literal or placed just above the k-th relative decrease; the stop classes are computed with the documented '
                'formula from chi^2 values observed independently (single-iteration calls on a deep copy) and Trace_GraphSLAM demands report = Outcome, '
                'bitwise equal poses for verbose on/off, for split runs and for the same call on a graph rebuilt from the current numbers (no hidden state; the scenarios contain user pose / measurement edits between calls); non-trivial = optimizer call with max_iter > 1 or an early stop')
    run.assumptions = ['the independent chi^2 sequence is observed through calc_chi2() between single-iteration calls on a deep copy of the graph',
                       'stop classes within 1e-9 relative of tol are ambiguous (either outcome accepted); none is expected on an unchanged tree']


def replay(run, rep):
    check(run)
