"""C13: .g2o export followed by import is lossless (G2O.tla: Export layout, Parse, round-trip theorem T9; binding A)."""
import warnings
warnings.filterwarnings('ignore')
import math
import os
import pathlib
import random
import tempfile

import numpy as np

from graphslam.edge.edge_odometry import EdgeOdometry
from graphslam.graph import Graph

from .. import build as B
from .. import edgecases as EC
from .. import g2ocases as GG

ULP_PI = 2.0 ** -50


def numbers_of(g):
    """Positional view of all stored numbers of a real graph, aligned with the abstract graph."""
    out = {'verts': [np.array(v.pose, dtype=float) for v in g._vertices], 'est': [np.array(e.estimate, dtype=float) for e in g._edges],
           'info': [np.array(e.information, dtype=float) for e in g._edges], 'off': [np.array(getattr(e, 'offset', []), dtype=float) for e in g._edges]}
    return out


def close(a, b, via):
    """a: value after re-import, b: value before export."""
    if via == 'id':
        return GG.bits(a) == GG.bits(b) or (a == b and a != 0)
    if via == 'wrap':
        return -math.pi <= a <= math.pi and (abs(a - b) <= 4 * ULP_PI * math.pi or abs(abs(a - b) - 2 * math.pi) <= 4 * ULP_PI * math.pi)
    return True     # 'norm' is compared per quaternion below


def quat_close(a, b):
    a, b = np.asarray(a), np.asarray(b)
    n = b / np.linalg.norm(b)
    return min(np.max(np.abs(a - n)), np.max(np.abs(a + n))) <= 4 * np.finfo(float).eps


def abs_chi2(g):
    """Yardstick for comparing chi^2 before / after a round trip: sum of the absolute terms |e_i| |Omega_ij| |e_j|, plus the effect on chi^2 of
    an error change d = 64 eps * (largest coordinate the edge touches) -- the reader may re-normalise a measurement quaternion / re-wrap an angle
    in the last bits, and a rotation acts on translations of any magnitude."""
    tot, slack = 0.0, 0.0
    with np.errstate(all='ignore'):
        for e in g._edges:
            err = np.abs(np.asarray(e.calc_error(), dtype=float))
            W = np.abs(np.asarray(e.information, dtype=float))
            tot += float(err @ W @ err)
            big = max([float(np.max(np.abs(np.asarray(v.pose, dtype=float)))) for v in e.vertices] + [float(np.max(np.abs(np.asarray(e.estimate, dtype=float))))]
                      + ([float(np.max(np.abs(np.asarray(e.offset, dtype=float))))] if getattr(e, 'offset', None) is not None else []))
            d = 64 * np.finfo(float).eps * big
            slack += float(2.0 * np.sum(err @ W) * d + np.sum(W) * d * d)
    return tot, slack


def compare_graphs(run, g1, g2, parsed, key, what):
    """g2 (re-imported) against g1 (exported), position by position, with the tolerance class the specification assigns to each position."""
    if [v.id for v in g1._vertices] != [v.id for v in g2._vertices] or [type(v.pose) for v in g1._vertices] != [type(v.pose) for v in g2._vertices]:
        run.violation(dict(key, outcome='vertex-ids-or-kinds'), '%s: vertex ids / kinds / order changed: %r -> %r' % (what, [v.id for v in g1._vertices], [v.id for v in g2._vertices]))
        return False
    if [(type(e).__name__, list(e.vertex_ids)) for e in g1._edges] != [(type(e).__name__, list(e.vertex_ids)) for e in g2._edges]:
        run.violation(dict(key, outcome='edge-ids-or-kinds'), '%s: edge classes / vertex ids / order changed' % what)
        return False
    n1, n2 = numbers_of(g1), numbers_of(g2)
    for j, pv in enumerate(parsed['verts']):
        if pv['kind'] == 'SE3' and quat_close(n2['verts'][j][3:], n1['verts'][j][3:]) and all(close(n2['verts'][j][c], n1['verts'][j][c], 'id') for c in range(3)):
            continue        # (a reader that re-normalises vertex quaternions changes at most the last bits of a unit quaternion: allowed by the property)
        for c, pn in enumerate(pv['nums']):
            if not close(n2['verts'][j][c], n1['verts'][j][c], pn['via']):
                run.violation(dict(key, outcome='vertex-number'), '%s: vertex %r component %d: %r -> %r (class %s)' % (what, g1._vertices[j].id, c, n1['verts'][j][c], n2['verts'][j][c], pn['via']))
                return False
    for j, pe in enumerate(parsed['edges']):
        if n1['info'][j].shape != n2['info'][j].shape or not all(GG.bits(a) == GG.bits(b) or a == b for a, b in zip(n1['info'][j].reshape(-1), n2['info'][j].reshape(-1))):
            run.violation(dict(key, outcome='information'), '%s: information matrix of edge %d changed: %r -> %r' % (what, j, n1['info'][j].tolist(), n2['info'][j].tolist()))
            return False
        vias = [pn['via'] for pn in pe['est']]
        if 'norm' in vias:
            if not all(close(n2['est'][j][c], n1['est'][j][c], 'id') for c in range(3)) or not quat_close(n2['est'][j][3:], n1['est'][j][3:]):
                run.violation(dict(key, outcome='measurement'), '%s: measurement of edge %d changed: %r -> %r' % (what, j, n1['est'][j].tolist(), n2['est'][j].tolist()))
                return False
        else:
            for c, via in enumerate(vias):
                if not close(n2['est'][j][c], n1['est'][j][c], via):
                    run.violation(dict(key, outcome='measurement'), '%s: measurement of edge %d component %d: %r -> %r (class %s)' % (what, j, c, n1['est'][j][c], n2['est'][j][c], via))
                    return False
        if pe['cls'] == 'lm':
            e1, e2 = g1._edges[j], g2._edges[j]
            if type(e1.offset) is not type(e2.offset) or e1.offset_id != e2.offset_id or not all(GG.bits(a) == GG.bits(b) or a == b for a, b in zip(n1['off'][j], n2['off'][j])):
                run.violation(dict(key, outcome='offset', kind=pe['kind']), '%s: offset of landmark edge %d changed: id %r -> %r, %r -> %r' % (what, j, e1.offset_id, e2.offset_id, n1['off'][j].tolist(), n2['off'][j].tolist()))
                return False
    return True


class TaggedOdometry(EdgeOdometry):
    """A user edge type that keeps the built-in text form (inherited to_g2o, hence a built-in tag) but has its own reader and cost: passed as a
    custom edge type it must come back from a file as itself (custom types are consulted before the built-in readers)."""

    def calc_chi2(self):
        return 3.0 * super().calc_chi2()

    @classmethod
    def from_g2o(cls, line, g2o_params_or_none=None):
        e = EdgeOdometry.from_g2o(line, g2o_params_or_none)
        if e is not None:
            e.__class__ = cls
        return e


def sizes(run):
    """Size dimension: files whose line count is a round number (powers of two and of ten, and their neighbours) -- writers and readers that
    work in blocks have their boundaries there.  The re-imported graph has the same vertices and edges, in order, and the same chi^2."""
    from graphslam.pose.se2 import PoseSE2
    from graphslam.vertex import Vertex
    rnd = random.Random(run.seed + 1313)
    totals = [64, 100, 127, 128, 256, 500, 512, 999, 1000, 1001, 1024, 2000, 2048, 4096, 5000, 8192, 10000]
    if run.tier == 'thorough':
        totals += [16384, 20000, 32768, 50000, 65536, 100000]
    tmpdir = tempfile.mkdtemp(prefix='verif-g2o-sizes-')
    done = []
    try:
        for total in totals:
            nv = max(2, (2 * total) // 5)
            ne = total - nv
            verts = [Vertex(j, PoseSE2([rnd.uniform(-20, 20), rnd.uniform(-20, 20)], rnd.uniform(-3.1, 3.1))) for j in range(nv)]
            info = np.array([[2.0, 0.5, 0.0], [0.5, 3.0, 0.25], [0.0, 0.25, 1.0]])
            edges = []
            for n in range(ne):
                a = n % nv
                b = (a + 1 + (n // nv)) % nv
                if a == b:
                    b = (a + 1) % nv
                edges.append(EdgeOdometry([a, b], info * (1 + n % 3), PoseSE2([rnd.uniform(-1, 1), rnd.uniform(-1, 1)], rnd.uniform(-0.5, 0.5))))
            g = Graph(edges, verts)
            path = os.path.join(tmpdir, 'n%d.g2o' % total)
            key = dict(part='sizes', lines=total)
            try:
                g.to_g2o(path)
                g2 = Graph.from_g2o(path)
                with open(path) as f:
                    nlines = sum(1 for _ in f)
                c1, c2 = float(g.calc_chi2()), float(g2.calc_chi2())
            except Exception as ex:  # noqa
                run.violation(dict(key, outcome='raised'), 'round trip of a graph with %d vertices + %d edges raised %r' % (nv, ne, ex), dict(lines=total))
                continue
            finally:
                if os.path.exists(path):
                    os.unlink(path)
            run.count(key=('sizes', total), nontrivial=True)
            run.replayed += 1
            done.append(total)
            same = ([v.id for v in g2._vertices] == [v.id for v in verts] and [list(e.vertex_ids) for e in g2._edges] == [list(e.vertex_ids) for e in edges]
                    and all(np.array_equal(np.asarray(a.pose)[:2], np.asarray(b.pose)[:2]) for a, b in zip(g2._vertices, verts)))
            if nlines != total or not same or abs(c2 - c1) > 1e-9 * abs(c1):
                run.violation(dict(key, outcome='different-graph'), 'graph with %d vertices + %d edges: the file has %d lines, the re-imported graph %d vertices + %d edges, chi2 %r -> %r' % (
                    nv, ne, nlines, len(g2._vertices), len(g2._edges), c1, c2), dict(lines=total))
    finally:
        import shutil
        shutil.rmtree(tmpdir, ignore_errors=True)
    run.notes['file_sizes_round_tripped'] = done


def lifecycle(run):
    """Binding B for the file round trip: sessions in which the graph is exported and re-imported BETWEEN other calls (optimizer runs, flag
    changes, queries) and then used further; every call is validated against GraphSLAM!Reload by Trace_GraphSLAM."""
    from .. import scenario

    def opt(m, tol='1e-4', ff=True):
        return {'op': 'OptCall', 'maxIter': m, 'fixFirst': ff, 'verbose': False, 'tol': tol, 'q': '-', 'target': 0, 'idx': 0, 'flag': False}

    def q(name, t=1):
        return {'op': 'Query', 'q': name, 'target': t, 'maxIter': 0, 'fixFirst': False, 'verbose': False, 'tol': '-', 'idx': 0, 'flag': False}

    def fx(i, b):
        return {'op': 'SetFixed', 'idx': i, 'flag': b, 'q': '-', 'target': 0, 'maxIter': 0, 'fixFirst': False, 'verbose': False, 'tol': '-'}
    rl = {'op': 'Reload', 'q': '-', 'target': 0, 'maxIter': 0, 'fixFirst': False, 'verbose': False, 'tol': '-', 'idx': 0, 'flag': False}
    names = ['se2plain', 'se2plainc', 'se3reg', 'se3regc', 'se2plainids', 'se3idsreg', 'se2', 'se3', 'se2c', 'se3c', 'mixed', 'se2fix', 'se3fix', 'r2', 'r3', 'r2c', 'se2big', 'se2weighted', 'se2alias', 'se2shared']
    def ed(op, i):
        return {'op': op, 'idx': i, 'flag': False, 'q': '-', 'target': 0, 'maxIter': 0, 'fixFirst': False, 'verbose': False, 'tol': '-'}
    behaviours = []
    for n in names:
        # (the user's edits before an export: what is written is the CURRENT pose / measurement / information)
        behaviours += [(n, [q('to_g2o'), ed('SetPose', 2), ed('SetMeas', 1), ed('SetMeas', 2), ed('SetMeas', 3), rl, q('calc_chi2'), ed('SetPose', 1), ed('SetMeas', 4), ed('SetMeas', 5), rl, q('calc_chi2')])]
        behaviours += [(n, [rl, q('calc_chi2'), rl]), (n, [opt(2), rl, opt(3), q('to_g2o'), rl, opt(1, '0', False)]),
                       (n, [fx(2, True), fx(3, True), rl, q('calc_chi2'), opt(2), rl])]
    events = []
    sessions = scenario.play(behaviours, run.seed, events, twin_every=10 ** 6)
    rejects = scenario.validate(run, events, name='Trace_lifecycle')
    st = {'sessions': len(sessions), 'reloads_continued': 0, 'reloads_refused': 0, 'edges_without_writer_dropped': 0, 'flags_cleared': 0}
    prev = {}
    for e in events:
        if e['op'] == 'Reload':
            st['reloads_refused' if e['raised'] else 'reloads_continued'] += 1
            if not e['raised'] and e['sid'] in prev:
                st['edges_without_writer_dropped'] += len(prev[e['sid']]['edges']) - len(e['edges'])
                st['flags_cleared'] += sum(v['fixed'] for v in prev[e['sid']]['verts'])
        prev[e['sid']] = e
    run.notes['lifecycle_sessions'] = st
    run.replayed += len(sessions)
    if min(st['reloads_continued'], st['reloads_refused'], st['edges_without_writer_dropped'], st['flags_cleared']) == 0:
        raise RuntimeError('vacuity guard (lifecycle): %r' % st)
    if not any(c.startswith('reload-') for _, _, c in rejects):
        # binding self-test: corrupted recordings must be rejected by the Reload clauses (otherwise this part would be vacuous)
        import copy
        small = [e for e in events if e['sid'] <= 9]
        wanted = []
        t1 = copy.deepcopy(small)
        for e in t1:
            if e['op'] == 'Reload' and not e['raised']:
                e['verts'][1]['fixed'] = True                 # a flag APPEARS in the file round trip (the graph had no fixed vertex)
                wanted.append((t1, (e['sid'], e['seq'], 'reload-effect')))
                break
        t2 = copy.deepcopy(small)
        for e in t2:
            if e['op'] == 'Reload' and not e['raised'] and len(e['edges']) > 2 and e['edges'][0]['vids'] != e['edges'][1]['vids']:
                e['edges'][0], e['edges'][1] = e['edges'][1], e['edges'][0]          # edge order changed by the round trip
                wanted.append((t2, (e['sid'], e['seq'], 'reload-effect')))
                break
        t3 = copy.deepcopy(small)
        for e in t3:
            if e['op'] == 'Reload' and not e['raised']:
                e['bound'][0] = list(reversed(e['bound'][0]))                        # the first edge is attached to its vertices the other way round
                wanted.append((t3, (e['sid'], e['seq'], 'reload-binding')))
                break
        for trace, want in wanted:
            rej = scenario.validate(run, trace, name='Trace_selftest')
            if want not in rej:
                raise RuntimeError('lifecycle binding self-test: corrupted trace not rejected with %r (rejections %r)' % (want, rej[:4]))
        if len(wanted) < 3:
            raise RuntimeError('lifecycle binding self-test: only %d corruptions could be constructed' % len(wanted))
        st['binding_selftest_corruptions_rejected'] = len(wanted)
    byid = {(e['sid'], e['seq']): e for e in events}
    for sid, seq, clause in rejects:
        if not clause.startswith('reload-'):
            continue          # the other clauses belong to C06 / C12 / C15 / C18 and are reported there
        ev = byid[(sid, seq)]
        run.violation(dict(part='lifecycle', clause=clause, template=sessions[sid].template, raised=ev.get('raised')),
                      'session %d (template %s) event %d: export + import inside a session violates clause %s of GraphSLAM!Reload (raised=%r) %r' % (
                          sid, sessions[sid].template, seq, clause, ev.get('raised'), sessions[sid].details.get(seq)),
                      dict(template=sessions[sid].template, event={k: v for k, v in ev.items() if k not in ('verts', 'edges')},
                           prefix=[{k: v for k, v in x.items() if k not in ('verts', 'edges')} for x in events if x['sid'] == sid and x['seq'] < seq]))
    for e in events:
        if e['op'] == 'Reload':
            run.count(key=('lifecycle', e['sid'], e['seq']), nontrivial=not e['raised'])


def check(run):
    rnd = random.Random(run.seed * 17 + 2)
    thorough = run.tier == 'thorough'
    graphs, cases, tabs, kinds = [], [], [], []
    for n in range(3000 if thorough else 120):
        inex = [None, None, None, None, 'rn_odometry', 'rn_landmark', 'se2_offset', None, 'no_registry', None, None, 'no_offset_id'][n % 12]
        g = GG.gen_real_graph(rnd, extreme=(n % 3 != 0), inexpressible=inex)
        tab = GG.SymTab()
        cases.append({'mode': 'roundtrip', 'g': GG.abstract(g, tab)})
        graphs.append(g)
        tabs.append(tab)
        kinds.append(inex)
    old = EC.headroom_class
    EC.headroom_class = lambda c: (id(c),)
    try:
        pairs = EC.evaluate(cases, None, 'MC_C13', run, spec='MC_G2O', invariants=('T9',))
    finally:
        EC.headroom_class = old
    stats = {'expressible': 0, 'refused': 0, 'cycles': 0, 'lines_compared': 0, 'numbers_compared_bitwise': 0}
    tmpdir = tempfile.mkdtemp(prefix='verif-g2o-')
    try:
        for n, ((c, obs), g, tab, inex) in enumerate(zip(pairs, graphs, tabs, kinds)):
            run.replayed += 1
            key = dict(inexpressible=inex)
            path = os.path.join(tmpdir, 'g%d.g2o' % n)
            raised = None
            custom = None
            if n % 4 == 1:
                for e in g._edges:
                    if type(e) is EdgeOdometry:
                        e.__class__ = TaggedOdometry
                custom = [TaggedOdometry]
                stats['graphs_with_user_subclass_edges'] = stats.get('graphs_with_user_subclass_edges', 0) + 1
            try:
                g.to_g2o(path if n % 2 else pathlib.Path(path))            # (str or pathlib.Path, alternately)
            except Exception as ex:  # noqa
                raised = ex
            run.count(key=n, nontrivial=True)
            if inex in ('no_registry', 'no_offset_id'):
                # The offsets of the SE(3) landmark edges cannot reach the file (no parameter lines): the round trip must either fail loudly
                # (export or import raises) or be lossless - never succeed with other offsets.
                stats['no_registry'] = stats.get('no_registry', 0) + 1
                if raised is None:
                    try:
                        g2 = Graph.from_g2o(path)
                    except Exception:  # noqa
                        g2 = None
                    if g2 is not None:
                        offs1 = [np.array(e.offset) for e in g._edges if hasattr(e, 'offset')]
                        offs2 = [np.array(e.offset) for e in g2._edges if hasattr(e, 'offset')]
                        if len(offs1) != len(offs2) or any(not np.array_equal(a, b) for a, b in zip(offs1, offs2)):
                            run.violation(dict(key, outcome='silent-offset-loss'), 'graph without offset-parameter registry: export and import both succeeded but the landmark offsets changed (%r -> %r)' % (
                                offs1[0].tolist() if offs1 else None, offs2[0].tolist() if offs2 else None), dict(abstract=c['g']))
                continue
            if obs['refused']:
                stats['refused'] += 1
                if raised is None:
                    run.violation(dict(key, outcome='not-refused'), 'content the format cannot express (%s) was written without an error' % inex, dict(abstract=c['g'], kind=inex))
                continue
            if raised is not None:
                run.violation(dict(key, outcome='export-raised'), 'export of an expressible graph raised %r' % (raised,), dict(abstract=c['g']))
                continue
            stats['expressible'] += 1
            # (1) the written file, tokenised, is Export(g) line by line; float(token) is the stored double, bitwise
            lines = GG.tokenize_file(path)
            exp = obs['file']
            ok = len(lines) == len(exp)
            if ok:
                for ln, ex in zip(lines, exp):
                    stats['lines_compared'] += 1
                    if len(ln) != len(ex):
                        ok = False
                        break
                    for tok, (kind, val) in zip(ln, ex):
                        if kind == 'tag':
                            ok = ok and tok == val
                        elif kind == 'id':
                            ok = ok and tok == str(tab.ids[val])
                        else:
                            stats['numbers_compared_bitwise'] += 1
                            try:
                                ok = ok and GG.bits(float(tok)) == GG.bits(tab.vals[val])
                            except ValueError:
                                ok = False
                    if not ok:
                        run.violation(dict(key, outcome='file-line'), 'written line %r is not the specified line %r' % (ln, [(k, tab.vals[v] if k == 'num' else (tab.ids[v] if k == 'id' else v)) for k, v in ex]),
                                      dict(abstract=c['g']))
                        break
            else:
                run.violation(dict(key, outcome='file-lines'), 'file has %d lines, Export(g) has %d' % (len(lines), len(exp)), dict(abstract=c['g']))
            if not ok:
                continue
            # (2) re-import: same ids, kinds, order; numbers bitwise except wrapped angles / normalised quaternions; chi2; 1..5 cycles
            gk = g
            chi0 = None
            try:
                chi0 = float(g.calc_chi2())
            except Exception:  # noqa
                pass
            for cyc in range(1, (6 if n % 5 == 0 else 3)):
                try:
                    g2 = Graph.from_g2o(path, custom) if custom else Graph.from_g2o(pathlib.Path(path) if (n + cyc) % 2 else path)
                except Exception as ex:  # noqa
                    run.violation(dict(key, outcome='import-raised'), 'import of an exported graph raised %r (cycle %d)' % (ex, cyc), dict(abstract=c['g']))
                    break
                stats['cycles'] += 1
                if not compare_graphs(run, gk, g2, obs['parsed'], dict(key, cycle=min(cyc, 2)), 'cycle %d' % cyc):
                    break
                if chi0 is not None and np.isfinite(chi0):
                    chi2 = float(g2.calc_chi2())
                    # (the reader may change the last bits at wrapped / re-normalised positions; with indefinite information and extreme magnitudes
                    #  chi^2 is a difference of huge terms, so the yardstick is the sum of the ABSOLUTE terms |e_i| |Omega_ij| |e_j|, not |chi^2|)
                    yard, slack = abs_chi2(g)
                    half_turn = any(len(np.asarray(e.estimate)) == 7 and type(e).__name__ in ('EdgeOdometry', 'TaggedOdometry') and float(np.linalg.norm(np.asarray(e.calc_error())[3:])) > 1.0 - 1e-9
                                    for e in g._edges)
                    if half_turn:
                        # a rotational error of exactly a half turn (w = 0): q and -q cannot be told apart, its sign is conventional (excluded set of C01 / C02)
                        run.skip('chi2 comparison skipped: an SE(3) rotational error is exactly a half turn')
                        chi0 = None
                        gk = g2
                        path = os.path.join(tmpdir, 'g%d_%d.g2o' % (n, cyc))
                        g2.to_g2o(path)
                        continue
                    if not (abs(chi2 - chi0) <= cyc * (1e-11 * (1e-300 + yard) + slack)) and not (not np.isfinite(chi2) and not np.isfinite(chi0)) and np.isfinite(yard + slack):
                        run.violation(dict(key, outcome='chi2', cycle=min(cyc, 2)), 'chi2 %r before export, %r after import (cycle %d)' % (chi0, chi2, cyc), dict(abstract=c['g']))
                        break
                gk = g2
                if n % 3 == 2 and cyc == 1:
                    # History: an offset of the RE-IMPORTED graph is re-calibrated in place (the edge's offset is the registered parameter's pose);
                    # the next export must carry the new value
                    for e in g2._edges:
                        if getattr(e, 'offset', None) is not None and len(np.asarray(e.offset)) == 7:
                            e.offset[0] = float(e.offset[0]) + 0.5 if abs(float(e.offset[0])) < 1e15 else 0.25
                            stats['offsets_edited_after_import'] = stats.get('offsets_edited_after_import', 0) + 1
                            chi0 = None          # (chi^2 changed with the offset: compared again from the next cycle on)
                            try:
                                chi0 = float(g2.calc_chi2())
                            except Exception:  # noqa
                                pass
                            g = g2
                            break
                path = os.path.join(tmpdir, 'g%d_%d.g2o' % (n, cyc))
                g2.to_g2o(path)
            # History: an export after the graph changed must reflect the CURRENT numbers (no stale text), and a re-import from a path that was
            # imported before must read the current file
            if n % 2 == 0:
                v0 = g._vertices[0]
                oldval = float(v0.pose[0])
                v0.pose[0] = oldval + 1.25 if abs(oldval) < 1e15 else 0.5
                p2 = os.path.join(tmpdir, 'g%d.g2o' % n)              # the path of the first export is re-used
                try:
                    g.to_g2o(p2)
                    g3 = Graph.from_g2o(p2)
                    tok = [ln for ln in GG.tokenize_file(p2) if ln[0].startswith('VERTEX') and ln[1] == str(v0.id)][0][2]
                    if GG.bits(float(tok)) != GG.bits(float(v0.pose[0])) or GG.bits(float(g3._vertices[0].pose[0])) != GG.bits(float(v0.pose[0])):
                        run.violation(dict(key, outcome='stale-export'), 'after changing a vertex the export / re-import still shows %r instead of %r' % (tok, float(v0.pose[0])), dict(abstract=c['g']))
                except Exception as ex:  # noqa
                    run.violation(dict(key, outcome='export-raised'), 'second export / import raised %r' % (ex,), dict(abstract=c['g']))
                stats['re_exports_after_change'] = stats.get('re_exports_after_change', 0) + 1
            if n % 40 == 0:
                run.sample(dict(abstract_graph=c['g'], exported_lines=[' '.join(ln) for ln in lines][:6], symbol_values=tab.vals[:12], ids=tab.ids))
    finally:
        import shutil
        shutil.rmtree(tmpdir, ignore_errors=True)
    run.notes['round_trips'] = stats
    lifecycle(run)
    sizes(run)
    if stats['expressible'] == 0 or stats['refused'] == 0:
        raise RuntimeError('vacuity guard: %r' % stats)
    run.rule = ('random real graphs (SE2+R2 / SE3+R3, odometry and landmark edges, offset parameters by id, shuffled lists, ids negative / > 2^40, quaternions with w<0, '
                'values 5e-324..1e300, -0.0, non-terminating binary fractions, non-diagonal information) projected to abstract graphs over number symbols; TLC '
                'computes Export(g) and checks Parse(Export(g)) = g (T9); the written file must be Export(g) token by token with float(token) bitwise the stored '
                'double; the re-imported graph must equal the original position by position (bitwise; wrapped angles within 4 ulp of pi; normalised measurement '
                'quaternions within 4 ulp up to sign); chi2 within 1e-11; 2..5 cycles; inexpressible content (R^n odometry, R^n->R^n landmark edges, SE(2) landmark '
                'edge with non-identity offset) must raise; non-trivial = every generated graph')
    run.assumptions = ['the offset-parameter registry is attached through Graph._g2o_params (the only way the library offers)', 'graphs whose landmark edges reference an offset id absent from the registry are outside the domain']


def replay(run, rep):
    check(run)
