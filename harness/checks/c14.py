"""C14: .g2o import is faithful to the file (G2O.tla: ParseLine dispatch, line-local and order-preserving fold; binding A)."""
import logging
import pathlib
import math
import os
import random
import tempfile

import numpy as np

from graphslam import load as load_mod
from graphslam.edge.edge_landmark import EdgeLandmark
from graphslam.edge.edge_odometry import EdgeOdometry
from graphslam.graph import Graph

from .. import build as B
from .. import edgecases as EC
from .. import g2ocases as GG

VT = {'SE2': 'VERTEX_SE2', 'SE3': 'VERTEX_SE3:QUAT', 'R2': 'VERTEX_XY', 'R3': 'VERTEX_TRACKXYZ'}


def gen_file(rnd, with_custom=True):
    """An abstract file: list of lines; a line is a list of tokens [kind, value] (value: tag string / id symbol / number symbol),
    [] for a blank line, [['junk', n]] for junk line n.  Returns (lines, SymTab)."""
    tab = GG.SymTab()

    def num(x):
        return ['num', tab.num(x)]

    def val():
        return GG.rnd_val(rnd, rnd.random() < 0.3)

    def quat(unit=True):
        q = GG.rnd_quat(rnd)
        if not unit:
            q = rnd.choice([[1.0, 2.0, 2.0, 4.0], [0.0, 0.0, -3.0, -4.0], [2.0, 3.0, 6.0, 0.0], [0.1, 0.2, 0.3, -0.4]])
        return q
    ids = rnd.sample(GG.IDS, 6)
    kinds = {ids[0]: 'SE2', ids[1]: 'SE2', ids[2]: 'R2', ids[3]: 'SE3', ids[4]: 'SE3', ids[5]: 'R3'}
    vlines = []
    for i, k in kinds.items():
        nums = [val() for _ in range(B.DIM[k])]
        if k == 'SE2':
            nums.append(rnd.choice([rnd.uniform(-3.1, 3.1), 0.0, 3.5, -7.0, 100.0, math.pi]))
        if k == 'SE3':
            nums += quat()
        vlines.append([['tag', VT[k]], ['id', tab.idsym(i)]] + [num(x) for x in nums])
    offids = rnd.sample([0, 3, 11, -2], 2)
    plines = [[['tag', 'PARAMS_SE3OFFSET'], ['id', tab.idsym(o)]] + [num(x) for x in [val(), val(), val()] + quat()] for o in offids]
    if rnd.random() < 0.6:      # (also with id 0, the id EDGE_SE2_XY edges carry: such edges have NO offset field and must keep the identity)
        # (its id may coincide with an SE(3) offset parameter's id -- parameters are keyed by TYPE and id -- and it may come first)
        plines.insert(rnd.choice([0, len(plines)]), [['tag', 'PARAMS_SE2OFFSET'], ['id', tab.idsym(rnd.choice([0, 5, 0] + offids))], num(val()), num(val()), num(rnd.choice([0.3, -4.0, 2.0]))])
    if rnd.random() < 0.3:      # a parameter id defined twice: the later line wins for the edges after it
        plines.append([['tag', 'PARAMS_SE3OFFSET'], ['id', tab.idsym(offids[0])]] + [num(x) for x in [val(), val(), val()] + quat()])
    elines = []

    def upper(n):
        return [num(val()) for _ in range(n * (n + 1) // 2)]
    se2 = [i for i, k in kinds.items() if k == 'SE2']
    se3 = [i for i, k in kinds.items() if k == 'SE3']
    for _ in range(rnd.randint(1, 3)):
        a, b = rnd.sample(se2, 2)
        elines.append([['tag', 'EDGE_SE2'], ['id', tab.idsym(a)], ['id', tab.idsym(b)], num(val()), num(val()), num(rnd.choice([0.5, -3.0, 4.0, 9.0]))] + upper(3))
    for _ in range(rnd.randint(1, 3)):
        a, b = rnd.sample(se3, 2)
        elines.append([['tag', 'EDGE_SE3:QUAT'], ['id', tab.idsym(a)], ['id', tab.idsym(b)]] + [num(x) for x in [val(), val(), val()] + quat(unit=rnd.random() < 0.6)] + upper(6))
    for _ in range(rnd.randint(1, 2)):
        elines.append([['tag', 'EDGE_SE2_XY'], ['id', tab.idsym(rnd.choice(se2))], ['id', tab.idsym(ids[2])], num(val()), num(val())] + upper(2))
    tlines = []
    for _ in range(rnd.randint(1, 3)):
        tlines.append([['tag', 'EDGE_SE3_TRACKXYZ'], ['id', tab.idsym(rnd.choice(se3))], ['id', tab.idsym(ids[5])], ['id', tab.idsym(rnd.choice(offids))]] + [num(val()) for _ in range(3)] + upper(3))
    clines = []
    if with_custom:
        for tag in rnd.sample(['EDGE_DIST_A', 'EDGE_DIST_B', 'EDGE_DIST_B'], 2):
            a, b = rnd.sample(se2 + [ids[2]], 2)
            clines.append([['tag', tag], ['id', tab.idsym(a)], ['id', tab.idsym(b)], num(abs(val()) + 0.5), num(rnd.choice([1.0, 2.5, 0.125]))])
    # any legal order: an EDGE_SE3_TRACKXYZ line comes after the PARAMS_SE3OFFSET lines (its offset is resolved while reading)
    free = vlines + elines + clines
    rnd.shuffle(free)
    cut = rnd.randint(0, len(free))
    body = free[:cut] + plines + free[cut:]
    first_t = len(free[:cut]) + len(plines)
    for t in tlines:
        body.insert(rnd.randint(first_t, len(body)), t)
    # interleave blank and junk lines
    out = []
    for ln in body:
        while rnd.random() < 0.25:
            out.append([] if rnd.random() < 0.4 else [['junk', rnd.randrange(len(GG.JUNK))]])
        out.append(ln)
    if rnd.random() < 0.5:
        out.append([])
    return out, tab


def render(lines, tab, rnd, plain=False):
    text = []
    eol = rnd.choice(['\n', '\r\n']) if not plain else '\n'
    for ln in lines:
        if not ln:
            text.append(rnd.choice(GG.BLANK))
            continue
        if ln[0][0] == 'junk':
            text.append(GG.JUNK[ln[0][1]])
            continue
        toks = []
        for kind, v in ln:
            if kind == 'tag':
                toks.append(v)
            elif kind == 'id':
                toks.append(str(tab.ids[v]))
            else:
                toks.append(repr(tab.vals[v]) if plain else GG.spell(tab.vals[v], rnd))
        s = toks[0] + ' ' + (' ' if (not plain and rnd.random() < 0.3) else '')
        for t in toks[1:]:
            s += t + (' ' * (1 if plain else rnd.choice([1, 1, 1, 2, 3])))
        text.append(s if rnd.random() < 0.5 else s.rstrip(' '))
    return eol.join(text) + (eol if rnd.random() < 0.8 else '')


class _Cap(logging.Handler):
    def __init__(self):
        super().__init__()
        self.records = []

    def emit(self, record):
        self.records.append(record)


def load_with_log(fn, *a, **kw):
    caps = {}
    for name in ('graphslam.graph', 'graphslam.load'):
        lg = logging.getLogger(name)
        h = _Cap()
        lg.addHandler(h)
        caps[name] = (lg, h, lg.propagate, lg.level)
        lg.propagate = False
        lg.setLevel(logging.DEBUG)
    try:
        g = fn(*a, **kw)
    finally:
        for lg, h, p, lvl in caps.values():
            lg.removeHandler(h)
            lg.propagate = p
            lg.setLevel(lvl)
    return g, {k: v[1].records for k, v in caps.items()}


def wrap_ok(a, x):
    d = (a - x) / (2 * math.pi)
    return -math.pi <= a <= math.pi and abs(d - round(d)) * 2 * math.pi <= 1e-15 * (4 + abs(x)) * 4


def compare(run, g, obs, tab, key, text):
    def fail(outcome, msg):
        run.violation(dict(key, outcome=outcome), msg, dict(file=text, expected={k: obs[k] for k in ('verts', 'edges', 'params', 'warnings')} if len(text) < 4000 else None))
        return False
    V, E, P = obs['verts'], obs['edges'], obs['params']
    if len(g._vertices) != len(V) or len(g._edges) != len(E):
        return fail('counts', 'loaded %d vertices / %d edges, the file defines %d / %d' % (len(g._vertices), len(g._edges), len(V), len(E)))
    for v, pv in zip(g._vertices, V):
        if v.id != tab.ids[pv['id']] or B.KIND_OF.get(type(v.pose)) != pv['kind']:
            return fail('vertex-order-or-kind', 'vertex %r (%s) where the file has %r (%s)' % (v.id, type(v.pose).__name__, tab.ids[pv['id']], pv['kind']))
        for c, pn in enumerate(pv['nums']):
            x = tab.vals[pn['s']]
            a = float(np.asarray(v.pose)[c])
            if not ((pn['via'] == 'wrap' and wrap_ok(a, x)) or (pn['via'] != 'wrap' and (GG.bits(a) == GG.bits(x) or (a == x and x != 0)))):
                return fail('vertex-number', 'vertex %r component %d is %r, the line says %r' % (v.id, c, a, x))
    for j, (e, pe) in enumerate(zip(g._edges, E)):
        cls = 'odo' if type(e) is EdgeOdometry else ('lm' if type(e) is EdgeLandmark else 'custom')
        if cls != pe['cls'] or list(e.vertex_ids) != [tab.ids[i] for i in pe['vids']]:
            return fail('edge-order-or-kind', 'edge %d is %s %r, the file has %s %r' % (j, cls, list(e.vertex_ids), pe['cls'], [tab.ids[i] for i in pe['vids']]))
        if cls == 'custom':
            if type(e).TAG != pe['kind'] or GG.bits(float(e.estimate)) != GG.bits(tab.vals[pe['est'][0]['s']]) or GG.bits(float(e.information[0, 0])) != GG.bits(tab.vals[pe['info'][0]['s']]):
                return fail('custom-edge', 'custom edge %d: %s %r %r, the line says %s %r' % (j, type(e).TAG, e.estimate, e.information, pe['kind'], tab.vals[pe['est'][0]['s']]))
            continue
        n = pe['n']
        up = [tab.vals[p['s']] for p in pe['info']]
        M = np.asarray(e.information, dtype=float)
        k = 0
        if M.shape != (n, n):
            return fail('information', 'edge %d information has shape %r' % (j, M.shape))
        for r in range(n):
            for c in range(r, n):
                if not (GG.bits(M[r, c]) == GG.bits(up[k]) or M[r, c] == up[k]) or not (GG.bits(M[c, r]) == GG.bits(up[k]) or M[c, r] == up[k]):
                    return fail('information', 'edge %d information[%d,%d] = %r / [%d,%d] = %r, the line says %r' % (j, r, c, M[r, c], c, r, M[c, r], up[k]))
                k += 1
        est = np.asarray(e.estimate, dtype=float)
        xs = [tab.vals[p['s']] for p in pe['est']]
        vias = [p['via'] for p in pe['est']]
        if len(est) != len(xs):
            return fail('measurement', 'edge %d measurement has %d components' % (j, len(est)))
        if 'norm' in vias:
            q = np.array(xs[3:])
            qn = q / np.linalg.norm(q)
            qn = qn if qn[3] >= 0 else -qn
            if not all(GG.bits(a) == GG.bits(x) or a == x for a, x in zip(est[:3], xs[:3])) or np.max(np.abs(est[3:] - qn)) > 8 * np.finfo(float).eps:
                return fail('measurement', 'edge %d measurement %r, the line says %r (normalised %r)' % (j, est.tolist(), xs, qn.tolist()))
        else:
            for c, (a, x, via) in enumerate(zip(est, xs, vias)):
                if not ((via == 'wrap' and wrap_ok(a, x)) or (via != 'wrap' and (GG.bits(a) == GG.bits(x) or (a == x and x != 0)))):
                    return fail('measurement', 'edge %d measurement component %d is %r, the line says %r' % (j, c, a, x))
        if cls == 'lm':
            off = np.asarray(e.offset, dtype=float)
            if pe['off'] == 'identity':
                if type(e.offset).__name__ != 'PoseSE2' or np.any(off != 0.0):
                    return fail('offset', 'EDGE_SE2_XY edge %d has offset %r' % (j, off.tolist()))
            else:
                xs = [tab.vals[p['s']] for p in pe['off']]
                if e.offset_id != tab.ids[pe['offid']] or not all(GG.bits(a) == GG.bits(x) or a == x for a, x in zip(off, xs)):
                    return fail('offset', 'edge %d offset (id %r) %r, parameter line says (id %r) %r' % (j, e.offset_id, off.tolist(), tab.ids[pe['offid']], xs))
    keys = [(p['tag'], tab.ids[p['id']]) for p in P]
    reg = g._g2o_params or {}
    if set(reg.keys()) != set(keys):
        return fail('parameters', 'parameter registry has keys %r, the file defines %r' % (sorted(reg.keys()), sorted(set(keys))))
    for p in P:     # later definitions of the same key overwrite earlier ones
        last = [q for q in P if q['tag'] == p['tag'] and q['id'] == p['id']][-1]
        got = np.asarray(reg[(p['tag'], tab.ids[p['id']])].value, dtype=float)
        for c, pn in enumerate(last['nums']):
            x = tab.vals[pn['s']]
            if not ((pn['via'] == 'wrap' and wrap_ok(got[c], x)) or (pn['via'] != 'wrap' and (GG.bits(got[c]) == GG.bits(x) or (got[c] == x and x != 0)))):
                return fail('parameters', 'parameter %r component %d is %r, the line says %r' % (p['tag'], c, got[c], x))
    return True


def check(run):
    rnd = random.Random(run.seed * 29 + 4)
    thorough = run.tier == 'thorough'
    files = [gen_file(rnd, with_custom=(n % 3 != 0)) for n in range(2500 if thorough else 100)]
    shadow = [n % 5 == 4 for n in range(len(files))]      # every fifth file is read with a custom type that shadows the built-in EDGE_SE2 tag
    cases = [{'mode': 'parse', 'file': lines, 'custom': ['EDGE_DIST_A', 'EDGE_DIST_B'] + (['EDGE_SE2'] if sh else [])} for (lines, _), sh in zip(files, shadow)]
    old = EC.headroom_class
    EC.headroom_class = lambda c: (id(c),)
    try:
        pairs = EC.evaluate(cases, None, 'MC_C14', run, spec='MC_G2O', invariants=())
    finally:
        EC.headroom_class = old
    tmpdir = tempfile.mkdtemp(prefix='verif-g2o-')
    stats = {'files': 0, 'lines': 0, 'junk_lines': 0, 'blank_lines': 0, 'entry_points_compared': 0, 'crlf_files': 0}
    try:
        for n, ((c, obs), (lines, tab)) in enumerate(zip(pairs, files)):
            run.replayed += 1
            has_custom = any(ln and ln[0][0] == 'tag' and ln[0][1].startswith('EDGE_DIST') for ln in lines) or shadow[n]
            text = render(lines, tab, rnd)
            path = os.path.join(tmpdir, 'f%d.g2o' % (n // 2))        # two consecutive files share one path: a reader must read the current content
            with open(path, 'w', newline='') as f:
                f.write(text)
            stats['files'] += 1
            stats['lines'] += len(lines)
            stats['junk_lines'] += sum(1 for ln in lines if ln and ln[0][0] == 'junk')
            stats['blank_lines'] += sum(1 for ln in lines if not ln)
            stats['crlf_files'] += '\r\n' in text
            key = dict(custom=has_custom, shadowed_builtin_tag=shadow[n])
            run.count(key=n, nontrivial=True)
            try:
                # (the path is handed over as a str or as a pathlib.Path, alternately)
                g, logs = load_with_log(Graph.from_g2o, path if n % 2 else pathlib.Path(path), custom_edge_types=[GG.DistEdgeA, GG.DistEdgeB] + ([GG.ShadowSE2] if shadow[n] else []))
            except Exception as ex:  # noqa
                run.violation(dict(key, outcome='raised'), 'Graph.from_g2o raised %r on a well-formed file' % (ex,), dict(file=text))
                continue
            if not compare(run, g, obs, tab, key, text):
                continue
            warns = [r for r in logs['graphslam.graph'] if r.levelno >= logging.WARNING]

            def _msg(r):
                try:
                    return r.getMessage()
                except Exception as ex:  # noqa
                    return '<record cannot be formatted: %r>' % (ex,)
            if len(warns) != obs['warnings']:
                run.violation(dict(key, outcome='warnings'), '%d warnings for %d unrecognised non-blank lines: %r' % (len(warns), obs['warnings'], [_msg(r) for r in warns][:5]), dict(file=text))
                continue
            bad = [_msg(r) for r in warns if _msg(r).startswith('<record cannot be formatted')]
            if bad:
                # a warning is a message for a person: a record that raises when it is formatted (the skipped line's text used as a format string)
                # is not one, and handlers that do not swallow errors abort the import
                run.violation(dict(key, outcome='warning-unformattable'), 'a warning about an unrecognised line cannot be formatted: %s' % bad[0], dict(file=text))
                continue
            # all loader entry points behave identically (they accept no custom edge types: compared on files without custom lines)
            if not has_custom:
                for name in ('load_g2o', 'load_g2o_r2', 'load_g2o_r3', 'load_g2o_se2', 'load_g2o_se3'):
                    try:
                        g2, logs2 = load_with_log(getattr(load_mod, name), pathlib.Path(path) if n % 2 else path)
                    except Exception as ex:  # noqa
                        run.violation(dict(key, outcome='entry-point', entry=name), '%s raised %r' % (name, ex), dict(file=text))
                        break
                    stats['entry_points_compared'] += 1
                    w2 = [r for r in logs2['graphslam.graph'] if r.levelno >= logging.WARNING]
                    same = compare(run, g2, obs, tab, dict(key, entry=name), text) and len(w2) == obs['warnings'] and len(logs2['graphslam.load']) == 1
                    if not same:
                        run.violation(dict(key, outcome='entry-point', entry=name), '%s differs from Graph.from_g2o (warnings %d, own records %d)' % (name, len(w2), len(logs2['graphslam.load'])), dict(file=text))
                        break
            if n % 33 == 0:
                run.sample(dict(file_text=text[:1500], expected_counts=dict(vertices=len(obs['verts']), edges=len(obs['edges']), params=len(obs['params']), warnings=obs['warnings'])))
    finally:
        import shutil
        shutil.rmtree(tmpdir, ignore_errors=True)
    run.notes['files'] = stats
    run.rule = ('abstract files over number/id symbols: every tag of the vocabulary, two registered custom edge types, any legal order (parameter before use, vertices '
                'anywhere), duplicate parameter ids, interleaved blank / comment / junk / near-miss lines, rendered with random exact spellings of each float64 (repr, '
                '%.17g, scientific, leading +, bare integers, trailing dot, leading dot), extra spaces, trailing spaces, LF or CRLF; TLC evaluates Parse(file); the '
                'loaded graph must carry exactly those objects in file order, numbers bitwise (wrapped angles / normalised measurement quaternions per the '
                'specification), symmetric expansion of the upper triangle, offsets resolved through the parameter registry, one warning per unrecognised '
                'non-blank line; five deprecated entry points identical; non-trivial = every file')
    run.assumptions = ['tabs as field separators and inf/nan literals are outside the quantifier', 'blank lines: no warning is demanded (the code skips them silently)']


def replay(run, rep):
    check(run)
