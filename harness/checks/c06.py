"""C06: fixed vertices never move (every outcome) and free vertices solve the reduced problem."""
import random

import numpy as np

from .. import graphcases as GC
from .. import scenario
from . import c03

TEMPLATES = ['se2fix', 'se3fix', 'r3fixlm', 'se2allfix', 'r2iso', 'se3far', 'se2far', 'mixed', 'r2', 'se3c', 'se2shared', 'r3shared', 'se2big', 'se2plain', 'se3reg', 'se3rough', 'se2pair', 'se2desc', 'se3desc', 'se2inplace', 'se3inplace']


def gen(tier, seed):
    rnd = random.Random(seed * 977 + 1)
    thorough = tier == 'thorough'
    cases = []
    for kind in ('R2', 'R3', 'SE2', 'SE3'):
        for n_poses in (2, 3, 4):
            for mode in ('some', 'landmark', 'isolated', 'all', 'first'):
                for _ in range(12 if thorough else 1):
                    n_lm = rnd.choice([1, 2])
                    c = GC.gen_graph(rnd, kind, n_poses, n_lm, rnd.choice([0, 1]), custom=(mode == 'some' and n_poses >= 3),    # (also user-defined edges on numerical Jacobians)
                                     fixed_mode=mode if mode in ('some', 'landmark', 'first') else 'some', fix_first=rnd.random() < 0.5)
                    if mode == 'isolated':
                        # a fixed vertex that no edge names: the reduced problem is unaffected by it
                        iso = dict(k=rnd.choice([kind, GC.point_kind(kind)]), t=list(c['verts'][0]['t']), r=[], fixed=True)
                        if iso['k'] in ('SE2', 'SE3'):
                            iso['r'] = list(c['verts'][0]['r'])
                        pos = rnd.randrange(len(c['verts']) + 1)
                        c['verts'].insert(pos, iso)
                        for e in c['edges']:
                            e['vs'] = [x + 1 if x - 1 >= pos else x for x in e['vs']]
                    if mode == 'all':
                        for v in c['verts']:
                            v['fixed'] = True
                    if rnd.random() < 0.6:
                        c, _ = GC.permute(c, rnd)
                    c['mode'] = mode
                    cases.append(c)
    # exactly ONE free vertex, the first listed vertex already fixed by the user AND fix_first_pose=True (counting fixed vertices twice / once
    # must not matter), with 0..2 further fixed vertices
    for kind in ('R2', 'SE2', 'SE3', 'R3'):
        for extra in (0, 1, 2):
            c = GC.gen_graph(rnd, kind, 2 + extra, 0, 1 if extra else 0, custom=False, fixed_mode='first', fix_first=True)
            for j, v in enumerate(c['verts']):
                v['fixed'] = j != 1
            c['fixFirst'] = True
            c['mode'] = 'one-free'
            cases.append(c)
    return [c for c in cases if GC.components_fixed(c)]


def check(run):
    thorough = run.tier == 'thorough'
    # ---- (A) free vertices obtain the solution of the reduced problem, for every fixed subset ----
    cases = gen(run.tier, run.seed)
    pairs = c03.evaluate(run, [{k: v for k, v in c.items() if k != 'mode'} for c in cases], 'MC_C06')
    modes = {}
    for (c, obs_list), c0 in zip(pairs, cases):
        run.replayed += 1
        mode = c0['mode']
        modes[mode] = modes.get(mode, 0) + 1
        iso = [j for j, v in enumerate(c['verts']) if not any((j + 1) in e['vs'] for e in c['edges'])]
        key = dict(part='reduced-problem', mode=mode, isolated_fixed=bool(iso))
        r = c03.step_compare(run, c, obs_list, key, warmup=(run.replayed % 2 == 0))
        run.count(key=repr(c), nontrivial=r is not None)
        if r is not None and run.replayed % 17 == 1:
            run.sample(dict(case=c, fixed_mode=mode, exact_step=[e.tolist() for e in r[1]]))
    run.notes['fixed_subset_modes'] = modes
    # ---- (B) frame condition on recorded optimizer runs of 1..20 iterations, every outcome ----
    behaviours = scenario.generate(run, TEMPLATES, run.seed, 500 if thorough else 80, 10, max_iters=(1, 2, 3, 5, 8, 20), tols=('0', '1e-4', '1e-1'), workers=8, edits=True)
    # every outcome class is also exercised by fixed, hand-written behaviours (the TLC-generated ones depend on the seed):
    # no fixed vertex at all and fix_first_pose=False (singular solve, NaN), far initial guesses (diverging steps), long and short runs
    def opt(m, ff, tol='0'):
        return {'op': 'OptCall', 'maxIter': m, 'fixFirst': ff, 'verbose': False, 'tol': tol, 'q': '-', 'target': 0, 'idx': 0, 'flag': False}

    def setf(i, b):
        return {'op': 'SetFixed', 'idx': i, 'flag': b, 'q': '-', 'target': 0, 'maxIter': 0, 'fixFirst': False, 'verbose': False, 'tol': '-'}
    behaviours += [('se2', [opt(2, False), opt(1, True)]), ('se3', [opt(1, False), setf(3, True), opt(3, False)]), ('r2', [opt(3, False)]),
                   ('mixed', [setf(2, False), opt(2, False), opt(2, True)]),
                   ('se2far', [setf(4, True), opt(20, True, '1e-4')]), ('se3far', [opt(8, True), opt(20, False, '1e-1')]),
                   ('se2fix', [opt(20, True, '1e-4'), opt(1, False)]), ('r3fixlm', [opt(5, False, '1e-4')]), ('se2allfix', [opt(3, True), opt(2, False)]),
                   ('r2iso', [opt(3, False, '1e-4'), opt(3, True)]), ('se3fix', [opt(5, False, '1e-4')]),
                   ('se2shared', [opt(2, False), opt(3, True, '1e-4')]), ('r3shared', [opt(1, False), opt(2, False)]),
                   ('se2inplace', [opt(2, True), opt(3, False, '1e-4')]), ('se3inplace', [opt(1, False), opt(3, True, '1e-4')]),
                   ('se3rough', [opt(1, True), opt(3, True, '1e-4'), setf(3, True), opt(2, False)]), ('se2pair', [opt(1, True), opt(2, True), opt(2, False)]),
                   ('r2lonely', [opt(3, True, '1e-4'), setf(4, True), opt(2, True)]), ('se3lonely', [opt(2, True), opt(3, True, '1e-4')])]
    events = []
    sessions = scenario.play(behaviours, run.seed, events, twin_every=1000)
    rejects = scenario.validate(run, events)
    byid = {(e['sid'], e['seq']): e for e in events}
    outcomes = {'converged': 0, 'iteration_limit': 0, 'diverging': 0, 'singular_nan': 0, 'under_constrained': 0, 'opt_calls': 0, 'fixed_vertices_observed': 0}
    for e in events:
        if e['op'] != 'OptCall':
            continue
        det = sessions[e['sid']].details[e['seq']]
        outcomes['opt_calls'] += 1
        outcomes['converged'] += e['rep']['converged']
        outcomes['iteration_limit'] += not e['rep']['converged']
        c2 = det['chi2s']
        outcomes['diverging'] += any(c2[k + 1] > c2[k] for k in range(len(c2) - 1))
        outcomes['singular_nan'] += det['nan']
        outcomes['under_constrained'] += not any(v['fixed'] for v in e['verts'])
        outcomes['fixed_vertices_observed'] += sum(v['fixed'] for v in e['verts'])
        run.count(key=('session', e['sid'], e['seq']), nontrivial=any(v['fixed'] for v in e['verts']))
    run.notes['optimizer_outcomes'] = outcomes
    run.notes['sessions'] = len(sessions)
    run.replayed += len(sessions)
    if min(v for k, v in outcomes.items() if k != 'singular_nan') == 0:
        raise RuntimeError('vacuity guard: an outcome class was never observed: %r' % outcomes)
    for sid, seq, clause in rejects:
        if clause not in ('opt-effect', 'setfixed-frame') + ('opt-raised',):
            continue
        ev = byid[(sid, seq)]
        s = sessions[sid]
        det = s.details.get(seq, {})
        prev = byid.get((sid, seq - 1))
        moved = [j for j, (a, b) in enumerate(zip(prev['verts'], ev['verts'])) if b['fixed'] and a['pose'] != b['pose']] if prev else []
        flags = [j for j, (a, b) in enumerate(zip(prev['verts'], ev['verts'])) if a['fixed'] != b['fixed']] if prev else []
        key = dict(part='frame', clause=clause, nan=bool(det.get('nan')), fixed_moved=bool(moved), isolated_fixed=bool(any(det.get('isolated_fixed', []))))
        run.violation(key, 'session %d event %d (template %s): %s: fixed vertices moved %r, flags changed %r, NaN poses %s, max_iter=%s fix_first=%s' % (
            sid, seq, s.template, clause, moved, flags, det.get('nan'), ev.get('maxIter'), ev.get('fixFirst')),
            dict(event={k: v for k, v in ev.items() if k != 'edges'}, before=prev['verts'] if prev else None, template=s.template, seed=run.seed))
    run.rule = ('(A) lattice graphs x fixed subsets {first, several, fixed landmarks, all, with an isolated fixed vertex} x fix_first_pose T/F: one real step must equal '
                'the exact solution of the REDUCED system (TLC Assembly) and fixed vertices must get a zero increment; (B) recorded optimizer calls of 1..20 '
                'iterations on fixtures with fixed subsets incl. converged / iteration-limit / diverging / singular (NaN) runs: Trace_GraphSLAM demands bitwise '
                'equal pose digests for every fixed vertex and the flag rule after each call; non-trivial = case with a free coordinate, or call with a fixed vertex')
    run.assumptions = ['digests are SHA-1 of float64 bytes', 'reduced system solved with Fractions', 'one exact step from lattice states (L2)']


def replay(run, rep):
    check(run)
