"""C01: analytic edge Jacobians = exact derivative of the edge error w.r.t. the boxplus perturbation (dual numbers in TLA+)."""
import numpy as np

from .. import edgecases as EC

TOL = 1e-11


def check(run, cases=None):
    cases = cases if cases is not None else EC.gen_cases(run.tier, run.seed, with_chi2=False)
    pairs = EC.evaluate(cases, 12, 'MC_C01', run)
    run.rule = ('lattice edge cases (families: odometry R2/R3/SE2/SE3, landmark SE2->R2, SE3->R3, Rn->Rn with offsets) generated from VERIF_SEED; '
                'TLC evaluates error and Jacobian by dual numbers exactly; non-trivial = distinct case whose exact Jacobian has a non-zero '
                'entry outside the identity pattern (i.e. depends on the operands)')
    live = {}
    for n, (c, obs) in enumerate(pairs):
        # History dimension: every other case re-uses the previous edge object of the same family and overwrites poses,
        # measurement and offset IN PLACE (ndarray assignment), then asks for the Jacobians BEFORE the error -- a result
        # must depend on the current operand values only, never on what was computed for earlier values.
        fk = (c['fam'], c['k'])
        fresh = EC.build_edge(c)
        reuse = fk in live and n % 2 == 1
        if reuse:
            e, v1, v2 = live[fk]
            v1.pose[:] = fresh[1].pose
            v2.pose[:] = fresh[2].pose
            e.estimate[:] = fresh[0].estimate
            if c['fam'] == 'lm':
                e.offset[:] = fresh[0].offset
            e.information = fresh[0].information
            run.notes['in_place_reuse_cases'] = run.notes.get('in_place_reuse_cases', 0) + 1
        else:
            e, v1, v2 = fresh
        live[fk] = (e, v1, v2)
        v1.fixed, v2.fixed = [(False, False), (True, False), (False, True), (True, True)][n % 4]      # flags matter to the optimizer only
        key = dict(fam=c['fam'], k=c['k'], check='jacobian', reused=reuse)
        try:
            if reuse:
                jacs = e.calc_jacobians()
                err = e.calc_error()
            else:
                err = e.calc_error()
                jacs = e.calc_jacobians()
        except Exception as ex:  # noqa
            run.violation(key, 'exception %r on case %r' % (ex, c), c)
            run.count(nontrivial=False)
            continue
        run.replayed += 1
        ok, flipped, dev, msg = EC.compare_error(c, obs, err, TOL)
        if not ok:
            # the error itself is C02's business; without a matching error convention the Jacobian is compared raw
            flipped = False
        okj, devj, msgj = EC.compare_jacobians(c, obs, jacs, flipped, TOL)
        if not okj and c['fam'] == 'odo' and c['k'] == 'SE3' and ((obs['w'][0] < 0 and all(obs['e'][j][0] == 0 for j in (3, 4, 5))) or obs['w'][0] == 0):
            # zero rotational error with w < 0 (error quaternion (0,0,0,-1)): the error cannot tell the two sign conventions apart
            okj, devj, msgj = EC.compare_jacobians(c, obs, jacs, not flipped, TOL)
        if devj != float('inf'):
            run.dev(devj)
        nontriv = any(q[0] not in (0,) and abs(q[0]) != q[1] for row in obs['J'] for q in row)
        run.count(key=(c['fam'], c['k'], tuple(c['t1']), tuple(c['r1']), tuple(c['t2']), tuple(c.get('r2', c.get('roff'))), tuple(c['tz']), tuple(c.get('rz', ()))),
                  nontrivial=nontriv)
        if not okj:
            run.violation(key, '%s | case %r' % (msgj, c), dict(case=c, expected=obs))
        if run.replayed % 997 == 1:
            run.sample(dict(case=c, exact_error=obs['e'], exact_jacobian_row0=obs['J'][0], code_jacobian_row0=[np.asarray(jacs[0])[0].tolist(), np.asarray(jacs[1])[0].tolist()]))
    run.exhaustive = False
    run.notes['tolerance'] = 'abs dev <= %g * 8 * (largest translation magnitude of the case)' % TOL
    run.assumptions = ['inputs restricted to the rational lattice (DESIGN.md L1)', 'numpy float64 arithmetic',
                       'SE(3) odometry rows may carry the sign-canonical convention iff the error does']


def replay(run, rep):
    check(run, cases=[rep['case']['case']])
