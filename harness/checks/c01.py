"""C01: analytic edge Jacobians = exact derivative of the edge error w.r.t. the boxplus perturbation (dual numbers in TLA+)."""
import numpy as np

from .. import edgecases as EC

TOL = 1e-11


def derivative_monitors(run):
    """Beyond the lattice (L1): the edge Jacobians against the numerically evaluated derivative of calc_error() along the boxplus perturbation of
    each vertex (central differences + Richardson, ~1e-10 relative) on GENERIC float operands: headings within 1e-9..1e-6 of multiples of pi/2,
    rotations of 1e-9..1e-3 rad, translations up to 1e4, w < 0, rotated offsets.  A monitor for off-lattice regions, not the deciding oracle."""
    import math
    import random
    from graphslam.edge.edge_landmark import EdgeLandmark
    from graphslam.edge.edge_odometry import EdgeOdometry
    from graphslam.pose.r2 import PoseR2
    from graphslam.pose.r3 import PoseR3
    from graphslam.pose.se2 import PoseSE2
    from graphslam.pose.se3 import PoseSE3
    from graphslam.vertex import Vertex
    from .. import build as B
    rnd = random.Random(run.seed + 77)
    n_runs = 1200 if run.tier == 'thorough' else 200

    def heading():
        r = rnd.random()
        if r < 0.4:
            return rnd.choice([0.0, math.pi / 2, -math.pi / 2, 3.0]) + rnd.choice([-1, 1]) * 10 ** rnd.uniform(-9, -6)
        if r < 0.6:
            return rnd.choice([-1, 1]) * 10 ** rnd.uniform(-9, -3)
        return rnd.uniform(-3.0, 3.0)

    def mag():
        return rnd.choice([-1, 1]) * 10 ** rnd.uniform(-2, 4)

    def rp(kind):
        if kind in ('R2', 'R3'):
            return (PoseR2 if kind == 'R2' else PoseR3)([mag() for _ in range(B.DIM[kind])])
        if kind == 'SE2':
            return PoseSE2([mag(), mag()], heading())
        ax = np.array([rnd.gauss(0, 1) for _ in range(3)])
        ax /= np.linalg.norm(ax)
        th = rnd.choice([10 ** rnd.uniform(-9, -3), rnd.uniform(0.01, 2.5)])
        sgn = rnd.choice([1, -1])
        return PoseSE3([mag(), mag(), mag()], list(sgn * ax * math.sin(th / 2)) + [sgn * math.cos(th / 2)])
    worst = 0.0
    for n in range(n_runs):
        kind = 'SE2' if n % 2 == 0 else 'SE3'
        fam = 'odo' if n % 4 < 2 else 'lm'
        if n % 10 == 9:
            kind = 'R2' if (n // 10) % 2 else 'R3'          # (point observers too: R^n odometry and R^n -> R^n landmark edges)
        p1, p2 = rp(kind), rp(kind)
        if n % 8 >= 6:
            # both vertices FAR from the origin and CLOSE to each other (geocentric / UTM-like coordinates, poses metres apart)
            d = B.DIM[kind]
            base = np.array([rnd.choice([-1, 1]) * 10 ** rnd.uniform(4, 6.5) for _ in range(d)])
            p1[:d] = base
            p2[:d] = base + np.array([rnd.uniform(-10, 10) for _ in range(d)])
        if fam == 'odo':
            v1, v2 = Vertex(1, p1), Vertex(2, p2)
            small = rp(kind)
            if kind in ('R2', 'R3'):
                small = type(small)(np.asarray(small) * 1e-3)
            else:
                small = type(small)(np.asarray(small)[:B.DIM[kind]] * 1e-3, np.asarray(small)[B.DIM[kind]:] if kind == 'SE3' else 0.3 * rnd.uniform(-1, 1))
            z = (p2 - p1) + small                      # a measurement near the current relative pose (no half-turn / +-pi errors)
            if kind == 'SE3' and n % 12 in (1, 5):
                # deterministic region: a rotational error of 1e-9 .. 4e-9 (far below any comparison tolerance) whose quaternion is stored on the
                # OTHER hemisphere (measurement quaternion negated): error ~ (.., -v), w ~ -1 -- the Jacobian rows follow the sign of the error
                t = 10 ** rnd.uniform(-9, -8.4)
                tiny = PoseSE3(np.asarray(small)[:3], [t, -t / 2, t / 3, math.sqrt(1.0 - t * t * (1 + 0.25 + 1.0 / 9))])
                z = (p2 - p1) + tiny
                z[3:] = -z[3:]
            e = EdgeOdometry([1, 2], np.eye(B.CDIM[kind]), z, [v1, v2])
        else:
            P = PoseR2 if kind in ('SE2', 'R2') else PoseR3
            v1, v2 = Vertex(1, p1), Vertex(2, P(np.asarray(p2)[:B.DIM[kind]] if n % 8 >= 6 else [mag() for _ in range(B.DIM[kind])]))
            e = EdgeLandmark([1, 2], np.eye(B.DIM[kind]), P([mag() for _ in range(B.DIM[kind])]), rp(kind), vertices=[v1, v2])
        S = 1.0 + max(float(np.max(np.abs(np.asarray(v.pose)[:B.DIM[kind]]))) for v in (v1, v2))
        try:
            jacs = [np.asarray(J, dtype=float) for J in e.calc_jacobians()]
        except Exception as ex:  # noqa
            run.violation(dict(part='derivative-monitor', fam=fam, k=kind), 'exception %r' % (ex,), dict(p1=np.asarray(p1).tolist(), p2=np.asarray(p2).tolist()))
            continue
        run.count(key=('monitor', n), nontrivial=True)
        h = 2e-4
        for vi, v in enumerate((v1, v2)):
            base = v.pose
            cd = base.COMPACT_DIMENSIONALITY
            cols = []
            for j in range(cd):
                def cdiff(hh):
                    d = np.zeros(cd)
                    d[j] = hh
                    v.pose = base + d
                    ep = np.asarray(e.calc_error(), dtype=float)
                    v.pose = base + (-d)
                    em = np.asarray(e.calc_error(), dtype=float)
                    v.pose = base
                    diff = ep - em
                    if fam == 'odo' and kind == 'SE2':
                        diff[2] = (diff[2] + math.pi) % (2 * math.pi) - math.pi
                    return diff / (2 * hh)
                cols.append((4 * cdiff(h / 2) - cdiff(h)) / 3)
            D = np.array(cols).T
            dv = float(np.max(np.abs(D - jacs[vi]))) if D.shape == jacs[vi].shape else float('inf')
            worst = max(worst, dv / S)
            if dv > 1.5e-7 * S:             # (measured on the unchanged tree: deviation/S <= 8e-9 over 15 000 comparisons)
                run.violation(dict(part='derivative-monitor', fam=fam, k=kind, vertex=vi),
                              'Jacobian w.r.t. vertex %d deviates from the numerically evaluated derivative by %.3g (> %.3g) for generic operands p1=%r p2=%r' % (
                                  vi, dv, 1.5e-7 * S, np.asarray(p1).tolist(), np.asarray(p2).tolist()), dict(p1=np.asarray(p1).tolist(), p2=np.asarray(p2).tolist(), fam=fam))
                break
    run.notes['derivative_monitor_runs_on_generic_floats'] = n_runs
    run.notes['derivative_monitor_max_deviation_over_scale'] = worst


def translation_invariance(run):
    """Invariance as an oracle where no exact model reaches: an odometry edge depends on the DIFFERENCE of its vertices' positions, so its
    Jacobians are the same in a frame translated by 2^40 -- exactly, when the coordinates are dyadic (multiples of 2^-10) so that the shifted
    coordinates and their differences are exact floats.  (A formula that subtracts products of the large coordinates loses the lever arm.)"""
    import random
    from graphslam.edge.edge_odometry import EdgeOdometry
    from graphslam.pose.se2 import PoseSE2
    from graphslam.pose.se3 import PoseSE3
    from graphslam.pose.r2 import PoseR2
    from graphslam.pose.r3 import PoseR3
    from graphslam.vertex import Vertex
    from .. import build as B
    rnd = random.Random(run.seed + 71)
    n = 0

    def dy(d):
        return np.array([rnd.randint(-20000, 20000) / 1024.0 for _ in range(d)])
    for it in range(150):
        for kind in ('SE2', 'SE3', 'R2', 'R3'):
            d = B.DIM[kind]

            def rp(t):
                if kind == 'SE2':
                    return PoseSE2(t, rnd.uniform(-3.1, 3.1))
                if kind == 'SE3':
                    q = np.array([rnd.gauss(0, 1) for _ in range(4)])
                    return PoseSE3(t, q / np.linalg.norm(q))
                return (PoseR2 if d == 2 else PoseR3)(t)
            t1, t2 = dy(d), dy(d)
            p1, p2, z = rp(t1), rp(t2), rp(dy(d))
            res = []
            for sh in (np.zeros(d), np.array([2.0 ** 40, -(2.0 ** 40), 2.0 ** 39][:d])):
                a, b = p1.copy(), p2.copy()
                a[:d] = t1 + sh
                b[:d] = t2 + sh
                e = EdgeOdometry([1, 2], np.eye(B.CDIM[kind]), z, [Vertex(1, a), Vertex(2, b)])
                res.append(([np.asarray(J, dtype=float) for J in e.calc_jacobians()], np.asarray(e.calc_error(), dtype=float)))
            dv = max(float(np.max(np.abs(x - y))) for x, y in zip(res[0][0], res[1][0]))
            de = float(np.max(np.abs(res[0][1] - res[1][1])))
            n += 1
            run.count(key=('translation-invariance', kind, it), nontrivial=True)
            if dv > 1e-9 or de > 1e-9:
                run.violation(dict(part='translation-invariance', fam='odo', k=kind), 'odometry edge moved by 2^40 (dyadic coordinates, exact differences): Jacobians change by %.3g, error by %.3g | p1=%r p2=%r' % (
                    dv, de, np.asarray(p1).tolist(), np.asarray(p2).tolist()), dict(p1=np.asarray(p1).tolist(), p2=np.asarray(p2).tolist(), z=np.asarray(z).tolist()))
    run.notes['translation_invariance_cases'] = n


def check(run, cases=None):
    monitors = cases is None
    cases = cases if cases is not None else EC.gen_cases(run.tier, run.seed, with_chi2=False)
    pairs = EC.evaluate(cases, 12, 'MC_C01', run)
    if monitors:                 # (after the model evaluation, so that the evidence of a run they abort still shows what TLC covered)
        derivative_monitors(run)
        translation_invariance(run)
    run.rule = ('lattice edge cases (families: odometry R2/R3/SE2/SE3, landmark SE2->R2, SE3->R3, Rn->Rn with offsets) generated from VERIF_SEED; '
                'TLC evaluates error and Jacobian by dual numbers exactly; non-trivial = distinct case whose exact Jacobian has a non-zero '
                'entry outside the identity pattern (i.e. depends on the operands)')
    live = {}
    for n, (c, obs) in enumerate(pairs):
        # History dimension: every other case re-uses the previous edge object of the same family and overwrites poses,
        # measurement and offset IN PLACE (ndarray assignment), then asks for the Jacobians BEFORE the error -- a result
        # must depend on the current operand values only, never on what was computed for earlier values.
        fk = (c['fam'], c['k'])
        fresh = EC.build_edge(c)
        reuse = fk in live and n % 2 == 1
        if reuse:
            e, v1, v2 = live[fk]
            v1.pose[:] = fresh[1].pose
            v2.pose[:] = fresh[2].pose
            e.estimate[:] = fresh[0].estimate
            if c['fam'] == 'lm':
                e.offset[:] = fresh[0].offset
            e.information = fresh[0].information
            run.notes['in_place_reuse_cases'] = run.notes.get('in_place_reuse_cases', 0) + 1
        else:
            e, v1, v2 = fresh
        live[fk] = (e, v1, v2)
        v1.fixed, v2.fixed = [(False, False), (True, False), (False, True), (True, True)][n % 4]      # flags matter to the optimizer only
        key = dict(fam=c['fam'], k=c['k'], check='jacobian', reused=reuse)
        try:
            if reuse:
                jacs = e.calc_jacobians()
                err = e.calc_error()
            else:
                err = e.calc_error()
                jacs = e.calc_jacobians()
        except Exception as ex:  # noqa
            run.violation(key, 'exception %r on case %r' % (ex, c), c)
            run.count(nontrivial=False)
            continue
        run.replayed += 1
        ok, flipped, dev, msg = EC.compare_error(c, obs, err, TOL)
        if not ok:
            # the error itself is C02's business; without a matching error convention the Jacobian is compared raw
            flipped = False
        okj, devj, msgj = EC.compare_jacobians(c, obs, jacs, flipped, TOL)
        if not okj and c['fam'] == 'odo' and c['k'] == 'SE3' and ((obs['w'][0] < 0 and all(obs['e'][j][0] == 0 for j in (3, 4, 5))) or obs['w'][0] == 0):
            # zero rotational error with w < 0 (error quaternion (0,0,0,-1)): the error cannot tell the two sign conventions apart
            okj, devj, msgj = EC.compare_jacobians(c, obs, jacs, not flipped, TOL)
        if devj != float('inf'):
            run.dev(devj)
        nontriv = any(q[0] not in (0,) and abs(q[0]) != q[1] for row in obs['J'] for q in row)
        run.count(key=(c['fam'], c['k'], tuple(c['t1']), tuple(c['r1']), tuple(c['t2']), tuple(c.get('r2', c.get('roff'))), tuple(c['tz']), tuple(c.get('rz', ()))),
                  nontrivial=nontriv)
        if not okj:
            run.violation(key, '%s | case %r' % (msgj, c), dict(case=c, expected=obs))
        if run.replayed % 997 == 1:
            run.sample(dict(case=c, exact_error=obs['e'], exact_jacobian_row0=obs['J'][0], code_jacobian_row0=[np.asarray(jacs[0])[0].tolist(), np.asarray(jacs[1])[0].tolist()]))
    if monitors:
        # histories: an analytic Jacobian is the derivative at the CURRENT poses / measurement also after optimizer runs and the user's edits
        from .. import scenario
        scenario.histories(run, ['se2', 'se3', 'r2', 'r3', 'mixed', 'se3reg', 'se3neg'], 60 if run.tier == 'thorough' else 8, 14,
                           lambda cl, ev: cl == 'query-fresh' and ev.get('q') == 'edge_jacobians' and ev['edges'] and ev['edges'][(ev['target'] - 1) % len(ev['edges'])]['cls'] != 'custom')
    run.exhaustive = False
    run.notes['tolerance'] = 'abs dev <= %g * 8 * (largest translation magnitude of the case)' % TOL
    run.assumptions = ['inputs restricted to the rational lattice (DESIGN.md L1)', 'numpy float64 arithmetic',
                       'SE(3) odometry rows may carry the sign-canonical convention iff the error does']


def replay(run, rep):
    if 'case' not in (rep.get('case') or {}):
        return check(run)          # (a violation found along a history: the histories are regenerated from the seed and replayed as a whole)
    check(run, cases=[rep['case']['case']])
