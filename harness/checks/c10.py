"""C10: the twelve public pose Jacobian methods are the exact derivatives of the named operations (dual numbers in TLA+)."""
import numpy as np

from .. import build as B
from .. import edgecases as EC
from .. import posecases as PC

TOL = 1e-11
SHAPES = {  # documented shapes, as functions of (FDim, CDim, Dim)
    'oplus_self': lambda f, c, d: (f, f), 'oplus_other': lambda f, c, d: (f, f), 'ominus_self': lambda f, c, d: (f, f),
    'ominus_other': lambda f, c, d: (f, f), 'inverse': lambda f, c, d: (f, f),
    'oplus_self_compact': lambda f, c, d: (c, f), 'oplus_other_compact': lambda f, c, d: (c, f),
    'ominus_self_compact': lambda f, c, d: (c, f), 'ominus_other_compact': lambda f, c, d: (c, f),
    'boxplus': lambda f, c, d: (f, c), 'point_self': lambda f, c, d: (d, f), 'point_point': lambda f, c, d: (d, d)}


def derivative_monitors(run):
    """Beyond the lattice (L1): the same definition - derivative of the named operation along the boxplus perturbation of the named operand -
    evaluated numerically (central differences with Richardson extrapolation, accuracy ~1e-9 relative) on GENERIC float operands, in particular in
    regions no lattice point reaches: headings within 1e-9..1e-6 of a multiple of pi/2, rotations of 1e-9..1e-3 rad, translations up to 1e4,
    quaternions with w < 0.  A monitor, not the deciding oracle: it can only add alarms for off-lattice regions."""
    import math
    import random
    from graphslam.pose.se2 import PoseSE2
    from graphslam.pose.se3 import PoseSE3
    rnd = random.Random(run.seed + 55)
    n_runs = 1500 if run.tier == 'thorough' else 240

    def heading():
        r = rnd.random()
        if r < 0.5:
            return rnd.choice([0.0, math.pi / 2, -math.pi / 2, math.pi, -math.pi]) + rnd.choice([-1, 1]) * 10 ** rnd.uniform(-9, -6)
        if r < 0.7:
            return rnd.choice([-1, 1]) * 10 ** rnd.uniform(-9, -3)
        return rnd.uniform(-3.1, 3.1)

    def mag():
        return rnd.choice([-1, 1]) * 10 ** rnd.uniform(-2, 4)

    def rp(kind):
        if kind == 'SE2':
            return PoseSE2([mag(), mag()], heading())
        ax = np.array([rnd.gauss(0, 1) for _ in range(3)])
        ax /= np.linalg.norm(ax)
        th = rnd.choice([10 ** rnd.uniform(-9, -3), rnd.uniform(0.01, 3.1), math.pi - 10 ** rnd.uniform(-6, -2)])
        sgn = rnd.choice([1, -1])
        return PoseSE3([mag(), mag(), mag()], list(sgn * ax * math.sin(th / 2)) + [sgn * math.cos(th / 2)])

    def num_diff(fn, p, cd, h=2e-4):
        """d/d(delta) fn(p [+] delta) at 0, columns = tangent directions; Richardson on central differences."""
        cols = []
        for j in range(cd):
            def cdiff(hh):
                d = np.zeros(cd)
                d[j] = hh
                diff = np.asarray(fn(p + d), dtype=float) - np.asarray(fn(p + (-d)), dtype=float)
                if isinstance(p, PoseSE2) and len(diff) == 3:
                    diff[2] = (diff[2] + math.pi) % (2 * math.pi) - math.pi       # the heading difference is taken modulo 2 pi
                return diff / (2 * hh)
            cols.append((4 * cdiff(h / 2) - cdiff(h)) / 3)
        return np.array(cols).T

    for n in range(n_runs):
        kind = 'SE2' if n % 2 == 0 else 'SE3'
        a, b = rp(kind), rp(kind)
        if n % 12 == 3 and kind == 'SE3':
            # a unit quaternion with a component so small that products of it underflow (legal floats; nothing may depend on the FP error state)
            a[3:] = [1e-170, 0.0, 0.6, 0.8]
            b[3:] = [0.0, -1e-200, -0.8, 0.6]
        if n % 6 >= 4:
            # two poses FAR from the origin and CLOSE to each other (geocentric / UTM-like coordinates, poses metres apart): the relative
            # quantities are small differences of large numbers
            d = B.DIM[kind]
            base = np.array([rnd.choice([-1, 1]) * 10 ** rnd.uniform(4, 6.5) for _ in range(d)])
            a[:d] = base
            b[:d] = base + np.array([rnd.uniform(-10, 10) for _ in range(d)])
        cd = B.CDIM[kind]
        S = 1.0 + float(max(np.max(np.abs(np.asarray(a)[:B.DIM[kind]])), np.max(np.abs(np.asarray(b)[:B.DIM[kind]]))))
        pt = np.array([mag() for _ in range(B.DIM[kind])])
        S = max(S, float(np.max(np.abs(pt))))
        tol = 2e-9 * S          # (measured on the unchanged tree: deviation/S <= 2e-11 over 42 000 comparisons)
        checks = [
            ('jacobian_self_oplus_other_wrt_self', lambda x: x + b, a, a.jacobian_self_oplus_other_wrt_self(b) @ a.jacobian_boxplus()),
            ('jacobian_self_oplus_other_wrt_other', lambda x: a + x, b, a.jacobian_self_oplus_other_wrt_other(b) @ b.jacobian_boxplus()),
            ('jacobian_self_ominus_other_wrt_self', lambda x: x - b, a, a.jacobian_self_ominus_other_wrt_self(b) @ a.jacobian_boxplus()),
            ('jacobian_self_ominus_other_wrt_other', lambda x: a - x, b, a.jacobian_self_ominus_other_wrt_other(b) @ b.jacobian_boxplus()),
            ('jacobian_self_oplus_point_wrt_self', lambda x: x + pt, a, a.jacobian_self_oplus_point_wrt_self(pt) @ a.jacobian_boxplus()),
            ('jacobian_inverse', lambda x: x.inverse, a, a.jacobian_inverse() @ a.jacobian_boxplus()),
            ('jacobian_boxplus', lambda x: x, a, a.jacobian_boxplus()),
        ]
        run.count(key=('monitor', n), nontrivial=True)
        for name, fn, operand, analytic in checks:
            try:
                D = num_diff(fn, operand, cd)
            except Exception as ex:  # noqa
                run.violation(dict(part='derivative-monitor', k=kind, method=name), 'exception %r' % (ex,), dict(a=np.asarray(a).tolist(), b=np.asarray(b).tolist()))
                break
            A = np.asarray(analytic, dtype=float)
            dv = float(np.max(np.abs(A - D))) if A.shape == D.shape else float('inf')
            if dv > tol:
                run.violation(dict(part='derivative-monitor', k=kind, method=name),
                              '%s chained with jacobian_boxplus deviates from the numerically evaluated derivative by %.3g (> %.3g) for generic operands a=%r b=%r' % (
                                  name, dv, tol, np.asarray(a).tolist(), np.asarray(b).tolist()), dict(a=np.asarray(a).tolist(), b=np.asarray(b).tolist(), point=pt.tolist()))
                break
    run.notes['derivative_monitor_runs_on_generic_floats'] = n_runs


def _own_retraction(base):
    class Own(base):
        def jacobian_boxplus(self):
            return 3.0 * base.jacobian_boxplus(self) + 1.0
    Own.__name__ = 'OwnRetraction' + base.__name__
    return Own


_RETR = {cls: _own_retraction(cls) for cls in B.CLS_OF.values()}


def check(run, cases=None):
    monitors = cases is None
    cases = cases if cases is not None else [c for c in PC.gen_cases(run.tier, run.seed + 2) if not c.get('lite')]
    old = EC.headroom_class
    EC.headroom_class = PC.headroom_class
    try:
        pairs = EC.evaluate(cases, 6, 'MC_C10', run, spec='MC_PoseCases', invariants=('InputsUnit', 'GroupLaws'))
    finally:
        EC.headroom_class = old
    if monitors:                 # (after the model evaluation, so that the evidence of a run they abort still shows what TLC covered)
        derivative_monitors(run)
    run.rule = ('lattice pairs (a, b) and a point per case, 12 methods x 4 pose kinds; TLC differentiates the named operation along every '
                'tangent direction of the named operand by dual numbers; the code Jacobian chained with the exact boxplus Jacobian must equal it; '
                'non-trivial = distinct (case, method) whose exact derivative is not a 0/+-1 pattern')
    live = {}
    for c, obs in pairs:
        k = c['k']
        S = PC.scale_of(c)
        a, b = B.pose(k, c['ta'], c['ra']), B.pose(k, c['tb'], c['rb'])
        # History dimension: every other case re-uses the pose OBJECTS of the previous case of the same kind, overwritten in place
        # (ndarray assignment) after their Jacobians were already requested once: results must depend on the current values only.
        if k in live and run.replayed % 2 == 1:
            oa, ob = live[k]
            oa.jacobian_boxplus(); ob.jacobian_boxplus(); oa.inverse; oa.jacobian_inverse()      # noqa
            oa[:] = a
            ob[:] = b
            a, b = oa, ob
            run.notes['in_place_reuse_cases'] = run.notes.get('in_place_reuse_cases', 0) + 1
        live[k] = (a, b)
        # Subclass dimension: the receiver is an instance of a user subclass -- a trivial one, or one with its own retraction (overriding
        # jacobian_boxplus only) -- while `b` stays a base-class pose (which is what every library operation returns).  All twelve methods
        # differentiate w.r.t. the full representation, so none but jacobian_boxplus itself may depend on the override.
        if run.replayed % 3 == 1:
            a = a.view(EC._SUB[type(a)])
        elif run.replayed % 3 == 2:
            a = a.view(_RETR[type(a)])
        pt = np.array([float(x) for x in c['pt']])
        f, cd, dm = B.FDIM[k], B.CDIM[k], B.DIM[k]
        D = obs['D']

        def ex(name, rows=None):
            m = np.array([[q[0] / q[1] for q in row[:cd]] for row in D[name]])
            return m if rows is None else m[:rows]
        bp_a, bp_b = ex('boxplus_a'), ex('boxplus_b')
        run.replayed += 1
        # does the code's operation return the representative -q of the model's quaternion?  then the derivative rows flip too
        flip = {}
        for nm, res, exp in (('oplus', a + b, obs['comp']), ('ominus', a - b, obs['ominus']), ('inverse', a.inverse, obs['inv'])):
            flip[nm] = PC.pose_dev(res, exp)[2]
        calls = [
            ('oplus_self', lambda: a.jacobian_self_oplus_other_wrt_self(b), bp_a, ex('oplus_self'), flip['oplus']),
            ('oplus_self_compact', lambda: a.jacobian_self_oplus_other_wrt_self_compact(b), bp_a, ex('oplus_self', cd), flip['oplus']),
            ('oplus_other', lambda: a.jacobian_self_oplus_other_wrt_other(b), bp_b, ex('oplus_other'), flip['oplus']),
            ('oplus_other_compact', lambda: a.jacobian_self_oplus_other_wrt_other_compact(b), bp_b, ex('oplus_other', cd), flip['oplus']),
            ('ominus_self', lambda: a.jacobian_self_ominus_other_wrt_self(b), bp_a, ex('ominus_self'), flip['ominus']),
            ('ominus_self_compact', lambda: a.jacobian_self_ominus_other_wrt_self_compact(b), bp_a, ex('ominus_self', cd), flip['ominus']),
            ('ominus_other', lambda: a.jacobian_self_ominus_other_wrt_other(b), bp_b, ex('ominus_other'), flip['ominus']),
            ('ominus_other_compact', lambda: a.jacobian_self_ominus_other_wrt_other_compact(b), bp_b, ex('ominus_other', cd), flip['ominus']),
            ('boxplus', lambda: B.CLS_OF[k].jacobian_boxplus(a), None, bp_a, False),
            ('point_self', lambda: a.jacobian_self_oplus_point_wrt_self(pt), bp_a, ex('point_self'), False),
            ('point_point', lambda: a.jacobian_self_oplus_point_wrt_point(pt), None, np.array([[q[0] / q[1] for q in row[:dm]] for row in D['point_point']]), False),
            ('inverse', lambda: a.jacobian_inverse(), bp_a, ex('inverse'), flip['inverse']),
        ]
        got = {}
        for name, fn, chain, exact, flp in calls:
            key = dict(k=k, method=name)
            try:
                J = np.asarray(fn(), dtype=float)
            except Exception as e:  # noqa
                run.violation(key, 'exception %r in %s | case %r' % (e, name, c), dict(case=c))
                continue
            got[name] = J
            shp = SHAPES[name](f, cd, dm)
            nontriv = bool(np.any((np.abs(exact) > 1e-9) & (np.abs(np.abs(exact) - 1) > 1e-9)))
            run.count(key=(name, k, tuple(c['ta']), tuple(c['ra']), tuple(c['tb']), tuple(c['rb'])), nontrivial=nontriv)
            if J.shape != shp:
                run.violation(key, '%s has shape %s, documented %s | case %r' % (name, J.shape, shp, c), dict(case=c))
                continue
            M = J if chain is None else J @ chain
            if flp and k == 'SE3':
                exact = exact.copy()
                exact[3:] *= -1
            dv = float(np.max(np.abs(M - exact)))
            run.dev(dv / S)
            if dv > TOL * 10 * S:
                ij = np.unravel_index(int(np.argmax(np.abs(M - exact))), M.shape)
                run.violation(key, '%s: derivative entry %s along the manifold is %r, exact %r (dev %.3g > %.3g) | case %r' % (
                    name, ij, float(M[ij]), float(exact[ij]), dv, TOL * 10 * S, c), dict(case=c, exact=exact.tolist(), code=M.tolist()))
        # second pass in REVERSE order on the same operand objects: each method is a function of its operands, so it returns the same bits again
        # (a method that wrote into an operand makes a later call with that operand differentiate something else)
        for name, fn, chain, exact, flp in reversed(calls):
            if name not in got:
                continue
            try:
                J2 = np.asarray(fn(), dtype=float)
            except Exception as e:  # noqa
                run.violation(dict(k=k, method=name, part='second-call'), 'exception %r in the second call of %s | case %r' % (e, name, c), dict(case=c))
                continue
            if J2.shape != got[name].shape or not np.array_equal(J2, got[name], equal_nan=True):
                run.violation(dict(k=k, method=name, part='second-call'), '%s returns another matrix when called again on the same operands after the other Jacobian methods '
                              '(max change %.3g): the later value is not the derivative at these operands | case %r' % (
                                  name, float(np.max(np.abs(J2 - got[name]))) if J2.shape == got[name].shape else float('inf'), c), dict(case=c))
        if k in ('SE2', 'SE3') and run.replayed % 2 == 0:
            # d(a (+) b)/da and d(a (+) point)/da depend on the ROTATION of a and on b only: moving a astronomically far away (4e12) must not
            # change them (a formula that recovers the lever arm as a difference of positions would lose it there)
            a_far = a.copy()
            a_far[:dm] = np.array([4.0e12, -3.0e12, 5.0e12][:dm])
            for name, fn in (('oplus_self', lambda x: x.jacobian_self_oplus_other_wrt_self(b)), ('oplus_self_compact', lambda x: x.jacobian_self_oplus_other_wrt_self_compact(b)),
                             ('point_self', lambda x: x.jacobian_self_oplus_point_wrt_self(pt)), ('point_point', lambda x: x.jacobian_self_oplus_point_wrt_point(pt))):
                try:
                    dvf = float(np.max(np.abs(np.asarray(fn(a_far), dtype=float) - np.asarray(fn(a), dtype=float))))
                except Exception as e:  # noqa
                    run.violation(dict(k=k, method=name, check='translation-independence'), 'exception %r | case %r' % (e, c), dict(case=c))
                    continue
                if dvf > 1e-9 * S:
                    run.violation(dict(k=k, method=name, check='translation-independence'), '%s changes by %.3g when the receiver is moved to 4e12 (it depends on its rotation and on the other operand only) | case %r' % (name, dvf, c), dict(case=c))
        for full in ('oplus_self', 'oplus_other', 'ominus_self', 'ominus_other'):
            if full in got and full + '_compact' in got and got[full].shape[0] >= cd:
                if not np.array_equal(got[full][:cd], got[full + '_compact']):
                    run.violation(dict(k=k, method=full + '_compact'), '%s_compact is not the first %d rows of %s | case %r' % (full, cd, full, c), dict(case=c))
        # a Jacobian returned earlier must not be affected by later calls or by the caller editing another result in place
        first = B.CLS_OF[k].jacobian_boxplus(a)
        first *= 0.5
        again = np.asarray(B.CLS_OF[k].jacobian_boxplus(a), dtype=float)
        if 'boxplus' in got and not np.array_equal(again, got['boxplus']):
            run.violation(dict(k=k, method='boxplus', check='aliasing'), 'jacobian_boxplus() changed after the caller scaled an earlier result in place | case %r' % (c,), dict(case=c))
        if run.replayed % 173 == 1 and 'ominus_other' in got:
            run.sample(dict(case=c, method='jacobian_self_ominus_other_wrt_other', exact_derivative=ex('ominus_other').tolist(), code_chained=(got['ominus_other'] @ bp_b).tolist()))
    run.notes['tolerance'] = 'abs dev <= %g*S (S = largest translation magnitude of the case)' % (TOL * 10)
    run.assumptions = ['inputs restricted to the rational lattice (DESIGN.md L1)', 'the component of a 7-column Jacobian normal to the unit sphere is unconstrained by the property and not compared']


def replay(run, rep):
    check(run, cases=[rep['case']['case']])
