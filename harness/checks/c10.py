"""C10: the twelve public pose Jacobian methods are the exact derivatives of the named operations (dual numbers in TLA+)."""
import numpy as np

from .. import build as B
from .. import edgecases as EC
from .. import posecases as PC

TOL = 1e-11
SHAPES = {  # documented shapes, as functions of (FDim, CDim, Dim)
    'oplus_self': lambda f, c, d: (f, f), 'oplus_other': lambda f, c, d: (f, f), 'ominus_self': lambda f, c, d: (f, f),
    'ominus_other': lambda f, c, d: (f, f), 'inverse': lambda f, c, d: (f, f),
    'oplus_self_compact': lambda f, c, d: (c, f), 'oplus_other_compact': lambda f, c, d: (c, f),
    'ominus_self_compact': lambda f, c, d: (c, f), 'ominus_other_compact': lambda f, c, d: (c, f),
    'boxplus': lambda f, c, d: (f, c), 'point_self': lambda f, c, d: (d, f), 'point_point': lambda f, c, d: (d, d)}


def check(run, cases=None):
    cases = cases if cases is not None else [c for c in PC.gen_cases(run.tier, run.seed + 2) if not c.get('lite')]
    old = EC.headroom_class
    EC.headroom_class = PC.headroom_class
    try:
        pairs = EC.evaluate(cases, 6, 'MC_C10', run, spec='MC_PoseCases', invariants=('InputsUnit', 'GroupLaws'))
    finally:
        EC.headroom_class = old
    run.rule = ('lattice pairs (a, b) and a point per case, 12 methods x 4 pose kinds; TLC differentiates the named operation along every '
                'tangent direction of the named operand by dual numbers; the code Jacobian chained with the exact boxplus Jacobian must equal it; '
                'non-trivial = distinct (case, method) whose exact derivative is not a 0/+-1 pattern')
    live = {}
    for c, obs in pairs:
        k = c['k']
        S = PC.scale_of(c)
        a, b = B.pose(k, c['ta'], c['ra']), B.pose(k, c['tb'], c['rb'])
        # History dimension: every other case re-uses the pose OBJECTS of the previous case of the same kind, overwritten in place
        # (ndarray assignment) after their Jacobians were already requested once: results must depend on the current values only.
        if k in live and run.replayed % 2 == 1:
            oa, ob = live[k]
            oa.jacobian_boxplus(); ob.jacobian_boxplus(); oa.inverse; oa.jacobian_inverse()      # noqa
            oa[:] = a
            ob[:] = b
            a, b = oa, ob
            run.notes['in_place_reuse_cases'] = run.notes.get('in_place_reuse_cases', 0) + 1
        live[k] = (a, b)
        pt = np.array([float(x) for x in c['pt']])
        f, cd, dm = B.FDIM[k], B.CDIM[k], B.DIM[k]
        D = obs['D']

        def ex(name, rows=None):
            m = np.array([[q[0] / q[1] for q in row[:cd]] for row in D[name]])
            return m if rows is None else m[:rows]
        bp_a, bp_b = ex('boxplus_a'), ex('boxplus_b')
        run.replayed += 1
        # does the code's operation return the representative -q of the model's quaternion?  then the derivative rows flip too
        flip = {}
        for nm, res, exp in (('oplus', a + b, obs['comp']), ('ominus', a - b, obs['ominus']), ('inverse', a.inverse, obs['inv'])):
            flip[nm] = PC.pose_dev(res, exp)[2]
        calls = [
            ('oplus_self', lambda: a.jacobian_self_oplus_other_wrt_self(b), bp_a, ex('oplus_self'), flip['oplus']),
            ('oplus_self_compact', lambda: a.jacobian_self_oplus_other_wrt_self_compact(b), bp_a, ex('oplus_self', cd), flip['oplus']),
            ('oplus_other', lambda: a.jacobian_self_oplus_other_wrt_other(b), bp_b, ex('oplus_other'), flip['oplus']),
            ('oplus_other_compact', lambda: a.jacobian_self_oplus_other_wrt_other_compact(b), bp_b, ex('oplus_other', cd), flip['oplus']),
            ('ominus_self', lambda: a.jacobian_self_ominus_other_wrt_self(b), bp_a, ex('ominus_self'), flip['ominus']),
            ('ominus_self_compact', lambda: a.jacobian_self_ominus_other_wrt_self_compact(b), bp_a, ex('ominus_self', cd), flip['ominus']),
            ('ominus_other', lambda: a.jacobian_self_ominus_other_wrt_other(b), bp_b, ex('ominus_other'), flip['ominus']),
            ('ominus_other_compact', lambda: a.jacobian_self_ominus_other_wrt_other_compact(b), bp_b, ex('ominus_other', cd), flip['ominus']),
            ('boxplus', lambda: a.jacobian_boxplus(), None, bp_a, False),
            ('point_self', lambda: a.jacobian_self_oplus_point_wrt_self(pt), bp_a, ex('point_self'), False),
            ('point_point', lambda: a.jacobian_self_oplus_point_wrt_point(pt), None, np.array([[q[0] / q[1] for q in row[:dm]] for row in D['point_point']]), False),
            ('inverse', lambda: a.jacobian_inverse(), bp_a, ex('inverse'), flip['inverse']),
        ]
        got = {}
        for name, fn, chain, exact, flp in calls:
            key = dict(k=k, method=name)
            try:
                J = np.asarray(fn(), dtype=float)
            except Exception as e:  # noqa
                run.violation(key, 'exception %r in %s | case %r' % (e, name, c), dict(case=c))
                continue
            got[name] = J
            shp = SHAPES[name](f, cd, dm)
            nontriv = bool(np.any((np.abs(exact) > 1e-9) & (np.abs(np.abs(exact) - 1) > 1e-9)))
            run.count(key=(name, k, tuple(c['ta']), tuple(c['ra']), tuple(c['tb']), tuple(c['rb'])), nontrivial=nontriv)
            if J.shape != shp:
                run.violation(key, '%s has shape %s, documented %s | case %r' % (name, J.shape, shp, c), dict(case=c))
                continue
            M = J if chain is None else J @ chain
            if flp and k == 'SE3':
                exact = exact.copy()
                exact[3:] *= -1
            dv = float(np.max(np.abs(M - exact)))
            run.dev(dv / S)
            if dv > TOL * 10 * S:
                ij = np.unravel_index(int(np.argmax(np.abs(M - exact))), M.shape)
                run.violation(key, '%s: derivative entry %s along the manifold is %r, exact %r (dev %.3g > %.3g) | case %r' % (
                    name, ij, float(M[ij]), float(exact[ij]), dv, TOL * 10 * S, c), dict(case=c, exact=exact.tolist(), code=M.tolist()))
        for full in ('oplus_self', 'oplus_other', 'ominus_self', 'ominus_other'):
            if full in got and full + '_compact' in got and got[full].shape[0] >= cd:
                if not np.array_equal(got[full][:cd], got[full + '_compact']):
                    run.violation(dict(k=k, method=full + '_compact'), '%s_compact is not the first %d rows of %s | case %r' % (full, cd, full, c), dict(case=c))
        # a Jacobian returned earlier must not be affected by later calls or by the caller editing another result in place
        first = a.jacobian_boxplus()
        first *= 0.5
        again = np.asarray(a.jacobian_boxplus(), dtype=float)
        if 'boxplus' in got and not np.array_equal(again, got['boxplus']):
            run.violation(dict(k=k, method='boxplus', check='aliasing'), 'jacobian_boxplus() changed after the caller scaled an earlier result in place | case %r' % (c,), dict(case=c))
        if run.replayed % 173 == 1 and 'ominus_other' in got:
            run.sample(dict(case=c, method='jacobian_self_ominus_other_wrt_other', exact_derivative=ex('ominus_other').tolist(), code_chained=(got['ominus_other'] @ bp_b).tolist()))
    run.notes['tolerance'] = 'abs dev <= %g*S (S = largest translation magnitude of the case)' % (TOL * 10)
    run.assumptions = ['inputs restricted to the rational lattice (DESIGN.md L1)', 'the component of a 7-column Jacobian normal to the unit sphere is unconstrained by the property and not compared']


def replay(run, rep):
    check(run, cases=[rep['case']['case']])
