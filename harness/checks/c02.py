"""C02: edge errors and chi^2 implement the documented measurement model (exact homogeneous/Hamilton model in TLA+)."""
import numpy as np

from graphslam.graph import Graph

from .. import build as B
from .. import edgecases as EC

TOL = 1e-11


def check(run, cases=None):
    cases_given = cases
    cases = cases if cases is not None else EC.gen_cases(run.tier, run.seed + 1)
    pairs = EC.evaluate(cases, 0, 'MC_C02', run)
    run.rule = ('lattice edge cases as in C01 (different seed stream) x information catalogue {I, diag, 3 SPD with cross terms, ill-conditioned, '
                'PSD rank-1, indefinite}; TLC evaluates e and chi^2 (as a quadratic form in the SE(2) angle atom) exactly; non-trivial = '
                'distinct case with non-zero exact error')
    batch = []
    live = {}
    for n_case, (c, obs) in enumerate(pairs):
        # History dimension (as in C01): every other case re-uses the previous edge object of the same family with poses, measurement,
        # offset overwritten IN PLACE, and asks for chi^2 before the error.
        fk = (c['fam'], c['k'])
        fresh = EC.build_edge(c)
        if fk in live and n_case % 2 == 1:
            e, v1, v2 = live[fk]
            e.calc_jacobians()
            v1.pose[:] = fresh[1].pose
            v2.pose[:] = fresh[2].pose
            e.estimate[:] = fresh[0].estimate
            if c['fam'] == 'lm':
                e.offset[:] = fresh[0].offset
            e.information = fresh[0].information
            run.notes['in_place_reuse_cases'] = run.notes.get('in_place_reuse_cases', 0) + 1
            order = 'chi2-first'
        else:
            e, v1, v2 = fresh
            order = 'error-first'
        live[fk] = (e, v1, v2)
        key = dict(fam=c['fam'], k=c['k'], check='error')
        try:
            if order == 'chi2-first':
                chi2 = e.calc_chi2()
                err = e.calc_error()
            else:
                err = e.calc_error()
                chi2 = e.calc_chi2()
        except Exception as ex:  # noqa
            run.violation(key, 'exception %r on case %r' % (ex, c), c)
            run.count(nontrivial=False)
            continue
        run.replayed += 1
        ok, flipped, dev, msg = EC.compare_error(c, obs, err, TOL)
        if dev != float('inf'):
            run.dev(dev)
        nz = any((isinstance(x[0], str) and not (x[2][0] == 0 and x[1][0] > 0)) or (not isinstance(x[0], str) and x[0] != 0) for x in obs['e'])
        run.count(key=(c['fam'], c['k'], tuple(c['t1']), tuple(c['r1']), tuple(c['t2']), tuple(c.get('r2', c.get('roff'))), tuple(c['tz']), tuple(c.get('rz', ()))),
                  nontrivial=nz)
        if not ok:
            run.violation(key, '%s | case %r' % (msg, c), dict(case=c, expected=obs))
            continue
        if not c['chi2']:
            # chi^2 of this case exceeds TLC's 32-bit headroom: only the error vector is decided here
            run.skip('chi2 not evaluated by TLC (32-bit headroom); error vector still compared')
            continue
        run.notes['chi2_compared'] = run.notes.get('chi2_compared', 0) + 1
        # chi^2 = e' W e against the exact value
        exp, has_atom, a = EC.chi2_expected(obs)
        S = EC.scale_of(c)
        wmax = max(abs(x) for row in c['W'] for x in row)
        if flipped and any(c['W'][i][j] != 0 for i in range(3) for j in range(3, 6)):
            # sign-canonical convention changes the cross-term contribution: recompute from the flipped exact error
            ev = np.array([(1 if j < 3 else -1) * obs['e'][j][0] / obs['e'][j][1] for j in range(6)])
            exp = float(ev @ B.info(c['W']) @ ev)
        at_pi = (has_atom and abs(abs(a) - np.pi) < 1e-9) or (c['fam'] == 'odo' and c['k'] == 'SE3' and obs['w'][0] == 0)
        tolc = TOL * 40 * wmax * (S + 4) ** 2
        if at_pi:
            run.skip('chi2 with angular error exactly +-pi / rotational error exactly a half turn (sign of the error is conventional)')
        elif abs(chi2 - exp) > tolc:
            run.violation(dict(fam=c['fam'], k=c['k'], check='chi2'), 'chi2: code %r, exact %r (dev %.3g > %.3g) | case %r' % (float(chi2), exp, abs(chi2 - exp), tolc, c),
                          dict(case=c, expected=obs))
        else:
            run.dev(abs(chi2 - exp) / (wmax * (S + 4) ** 2))
        # linear in Omega, also at extreme scales (exact powers of two: the product must scale exactly up to rounding)
        if n_case % 5 == 0:
            for sc in (2.0 ** -40, 2.0 ** 40):
                e.information = B.info(c['W']).astype(float) * sc
                got = e.calc_chi2()
                if abs(got - sc * float(chi2)) > tolc * sc:          # (reference: the value at scale 1, which was just compared with the exact one)
                    run.violation(dict(fam=c['fam'], k=c['k'], check='chi2-linear-in-omega'), 'chi2 with information scaled by %g is %r, expected %r | case %r' % (sc, float(got), sc * float(chi2), c), dict(case=c, scale=sc))
                    break
            e.information = B.info(c['W'])
        if c['psd'] and chi2 < -tolc:
            run.violation(dict(fam=c['fam'], k=c['k'], check='chi2-nonneg'), 'chi2 %r < 0 with PSD information | case %r' % (chi2, c), dict(case=c))
        if not at_pi:
            batch.append((c, exp, tolc))
        if run.replayed % 997 == 1:
            run.sample(dict(case=c, exact_error=obs['e'], exact_chi2_form=obs['chi2'], code_error=np.asarray(err).tolist(), code_chi2=float(chi2)))
        # graph chi^2 = sum of edge chi^2: group consecutive cases of the same kinds into one graph
        if len(batch) == 7:
            _graph_sum(run, batch)
            batch = []
    if cases_given is None:
        # histories: error and chi^2 are those of the CURRENT poses / measurements / information also after optimizer runs and the user's edits
        from .. import scenario
        scenario.histories(run, ['se2', 'se3', 'r2', 'r3', 'mixed', 'se3reg', 'se2c', 'se3c', 'se2weighted'], 60 if run.tier == 'thorough' else 8, 14,
                           lambda cl, ev: cl == 'query-fresh' and ev.get('q') in ('calc_chi2', 'edge_chi2', 'edge_error'))
    optimized_mode(run)
    run.notes['tolerance'] = 'error: abs dev <= %g*4*S; chi2: abs dev <= %g*40*max|W|*(S+4)^2, S = largest translation magnitude' % (TOL, TOL)
    run.assumptions = ['inputs restricted to the rational lattice (DESIGN.md L1)', 'math.atan2 for the SE(2) angle atom']


def _graph_sum(run, batch):
    """Graph.calc_chi2 over several edges (disjoint vertex pairs, mixed kinds) equals the sum of the exact edge values."""
    from graphslam.vertex import Vertex
    edges, verts, total, tol = [], [], 0.0, 0.0
    for n, (c, exp, tolc) in enumerate(batch):
        e, v1, v2 = EC.build_edge(c)
        v1.id, v2.id = 10 * n + 1, 10 * n + 2
        e.vertex_ids = [v1.id, v2.id]
        e.vertices = None
        if hasattr(e, 'offset'):
            e.offset_id = 0              # (ids are labels: several landmark edges may carry the same id with different offsets)
        edges.append(e)
        verts += [v2, v1]
        # fixed flags must not influence chi^2 (they only matter to the optimizer): fix both / one / no endpoint
        v1.fixed = n % 3 != 2
        v2.fixed = n % 3 == 0
        total += exp
        tol += tolc
        if n % 3 == 0:
            # a parallel edge: a second edge object naming the same two ids (a repeated measurement); both count
            e2 = EC.build_edge(c)[0]
            e2.vertex_ids = [v1.id, v2.id]
            e2.vertices = None
            edges.insert(0, e2)
            total += exp
            tol += tolc
    try:
        if len(batch) % 2 == 1 or batch[0][0]['k'] in ('SE2', 'R2'):
            # History dimension: the same edge objects served another Graph over OTHER Vertex objects with the same ids (all at the identity)
            Graph(edges, [Vertex(v.id, type(v.pose).identity()) for v in verts]).calc_chi2()
        g = Graph(edges, verts)
        from ..core import library_debug_logging
        with library_debug_logging(len(batch) % 2 == 1 or batch[0][0]['k'] in ('SE3', 'R3')):       # (every other sum with the library's loggers at DEBUG)
            got = g.calc_chi2()
    except Exception as ex:  # noqa
        run.violation(dict(check='graph-chi2'), 'exception %r building/evaluating a graph of valid edges' % (ex,), dict(cases=[b[0] for b in batch]))
        return
    run.notes['graph_chi2_sums'] = run.notes.get('graph_chi2_sums', 0) + 1
    if abs(got - total) > tol:
        run.violation(dict(check='graph-chi2'), 'Graph.calc_chi2 %r != sum of exact edge chi2 %r' % (got, total), dict(cases=[b[0] for b in batch]))
        return
    # Provenance: a deep copy / a pickle round trip of the graph is a graph of its own -- its chi^2 is that of ITS vertices, whatever happens
    # to the original afterwards
    import copy
    import pickle
    try:
        twin = copy.deepcopy(g) if run.notes['graph_chi2_sums'] % 2 else pickle.loads(pickle.dumps(g))
        for v in g._vertices:
            v.pose = type(v.pose).identity()
        got2 = twin.calc_chi2()
    except Exception as ex:  # noqa
        run.violation(dict(check='graph-chi2-copy'), 'exception %r copying a graph / evaluating the copy' % (ex,), dict(cases=[b[0] for b in batch]))
        return
    if abs(got2 - total) > tol:
        run.violation(dict(check='graph-chi2-copy'), 'chi2 of a deep copy / unpickled copy %r != sum of exact edge chi2 %r after the ORIGINAL was moved' % (got2, total), dict(cases=[b[0] for b in batch]))
    if len(OPT_BATCHES) < 60:
        OPT_BATCHES.append(([b[0] for b in batch], total - (sum(b[1] for n, b in enumerate(batch) if n % 3 == 0)), tol))


OPT_BATCHES = []


def optimized_mode(run):
    """The same graph sums in a `python -O` interpreter (assert statements stripped)."""
    import json
    import os
    import subprocess
    import sys
    if not OPT_BATCHES:
        return
    env = dict(os.environ)
    p = subprocess.run([sys.executable, '-O', '-m', 'harness.optmode'], input=json.dumps([b[0] for b in OPT_BATCHES]), stdout=subprocess.PIPE, stderr=subprocess.PIPE,
                       text=True, env=env, timeout=600)
    if p.returncode != 0:
        raise RuntimeError('python -O subprocess failed: %s' % p.stderr[-800:])
    vals = json.loads(p.stdout)
    for (cases, total, tol), got in zip(OPT_BATCHES, vals):
        if isinstance(got, str) or abs(got - total) > tol:
            run.violation(dict(check='graph-chi2-python-O'), 'under `python -O` Graph.calc_chi2 gives %r, sum of exact edge chi2 is %r' % (got, total), dict(cases=cases))
    run.notes['graph_chi2_sums_under_python_O'] = len(vals)
    del OPT_BATCHES[:]


def replay(run, rep):
    if 'case' not in (rep.get('case') or {}):
        return check(run)          # (a violation found along a history: the histories are regenerated from the seed and replayed as a whole)
    check(run, cases=[rep['case']['case']])
