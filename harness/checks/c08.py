"""C08: results do not depend on representation choices of the same physical graph (one exact oracle for all representations)."""
import contextlib
import io
import itertools
import random

import numpy as np

from .. import build as B
from .. import graphcases as GC
from . import c03


def gen(tier, seed):
    rnd = random.Random(seed * 131 + 7)
    thorough = tier == 'thorough'
    cases = []
    for kind in ('SE3', 'SE2', 'R2', 'R3'):
        for n_poses in (2, 3, 4):
            for _ in range((30 if thorough else 3) * (2 if kind == 'SE3' else 1)):
                c = GC.gen_graph(rnd, kind, n_poses, rnd.choice([0, 1]) if kind in ('SE2', 'SE3') else 0, rnd.choice([0, 1]), custom=False,
                                 fixed_mode=rnd.choice(['some', 'landmark']), fix_first=False)
                if not any(v['fixed'] for v in c['verts']):
                    c['verts'][0]['fixed'] = True
                cases.append(c)
    return [c for c in cases if GC.components_fixed(c)]


def one_step(g, fix_first=False):
    old = [v.pose.copy() for v in g._vertices]
    chi2 = float(g.calc_chi2())
    with contextlib.redirect_stdout(io.StringIO()):
        g.optimize(tol=0.0, max_iter=1, fix_first_pose=fix_first, verbose=False)
    return chi2, {v.id: d for v, d in zip(g._vertices, GC.code_dx(old, g))}


def full_runs(run, rnd):
    """Code-vs-code: complete optimize() runs (library defaults) on several representations of the same physical graph."""
    import copy
    import math
    from graphslam.graph import Graph
    from graphslam.vertex import Vertex
    from graphslam.edge.edge_odometry import EdgeOdometry
    from .. import graphs
    thorough = run.tier == 'thorough'
    n = 0
    for kind in ('SE2', 'SE3', 'R2', 'R3'):
        for rep in range(5 if thorough else 2):
            seed = rnd.randrange(10 ** 6)
            es0, vs0, _ = graphs.make(kind, seed, n_poses=6, n_landmarks=2, closures=3, noise=0.03, cross=True)
            if kind == 'SE3':
                # one landmark edge has exactly the identity as its offset; the negate-quaternions representation stores it as (0, 0, 0, -1)
                lm0 = [e for e in es0 if hasattr(e, 'offset')][0]
                lm0.offset = type(lm0.offset).identity()

            def fresh():
                return copy.deepcopy(es0), copy.deepcopy(vs0)

            def run_graph(es, vs, alias=False, **kw):
                g = Graph(es, vs)
                if alias:
                    # a second Graph over the SAME Vertex objects, listed in another order, is built (never optimised) before the first one runs
                    Graph(copy.deepcopy(es), vs[1:] + vs[:1])
                with contextlib.redirect_stdout(io.StringIO()):
                    r = g.optimize(verbose=False, **kw)
                return g, r
            es, vs = fresh()
            gb, rb = run_graph(es, vs)
            base = {v.id: np.array(v.pose) for v in gb._vertices}
            variants = []
            # relabelled ids (non-monotonic, negative, huge), library defaults (fix_first_pose=True fixes the first LISTED vertex)
            for name, f in (('relabel-ids', lambda i: (-1) ** i * (3 * i + 1)), ('relabel-ids', lambda i: 2 ** 40 - 7 * i)):
                es, vs = fresh()
                for v in vs:
                    v.id = f(v.id)
                for e in es:
                    e.vertex_ids = [f(i) for i in e.vertex_ids]
                variants.append((name, es, vs, {}, f, 1.0))
            # permuted vertex and edge lists, keeping the same vertex fixed
            es, vs = fresh()
            vs[0].fixed = True
            rnd.shuffle(vs)
            rnd.shuffle(es)
            variants.append(('permute-lists', es, vs, dict(fix_first_pose=False), lambda i: i, 1.0))
            # information scaled by exact powers of two (decisions of the stopping rule are then bitwise the same) and by 1000
            for sc in (2.0 ** -30, 2.0 ** 10, 1000.0):
                es, vs = fresh()
                for e in es:
                    e.information = e.information * sc
                variants.append(('scale-information', es, vs, {}, lambda i: i, sc))
            # a twin whose vertices share their pose OBJECTS with another graph that is optimised first (optimize rebinds, it must not write into them)
            es, vs = fresh()
            es_o, vs_o = copy.deepcopy(es), [Vertex(v.id, v.pose, fixed=v.fixed) for v in vs]
            run_graph(es_o, vs_o)
            variants.append(('shared-pose-objects', es, vs, {}, lambda i: i, 1.0))
            es, vs = fresh()
            variants.append(('shared-vertex-objects', es, vs, dict(alias=True), lambda i: i, 1.0))
            # an edge split into two halves
            es, vs = fresh()
            e0 = es[1]
            e0.information = e0.information * 0.5
            es.insert(3, copy.deepcopy(e0))
            variants.append(('split-edge', es, vs, {}, lambda i: i, 1.0))
            if kind == 'SE3':
                es, vs = fresh()
                for j, v in enumerate(vs):
                    if j % 2 == 1 and len(v.pose) == 7:
                        v.pose[3:] = -v.pose[3:]
                for j, e in enumerate(es):
                    if j % 3 == 0 and isinstance(e, EdgeOdometry):
                        e.estimate[3:] = -e.estimate[3:]
                    if hasattr(e, 'offset') and (j % 2 == 0 or not np.any(np.asarray(e.offset)[:6])):
                        e.offset[3:] = -e.offset[3:]
                variants.append(('negate-quaternions', es, vs, {}, lambda i: i, 1.0))
            if kind == 'SE2':
                es, vs = fresh()
                for j, v in enumerate(vs):
                    if len(v.pose) == 3:
                        v.pose[2] += 2 * math.pi * ((j % 5) - 2)       # in-place: the stored angle is outside [-pi, pi]
                variants.append(('shift-2pi', es, vs, {}, lambda i: i, 1.0))
            for name, es, vs, kw, f, sc in variants:
                n += 1
                key = dict(part='full-run', variant=name, kind=kind)
                try:
                    g, r = run_graph(es, vs, **kw)
                except Exception as ex:  # noqa
                    run.violation(dict(key, outcome='raised'), '%s: %r (fixture %s seed %d)' % (name, ex, kind, seed), dict(kind=kind, seed=seed, variant=name))
                    continue
                worst = 0.0
                for v in g._vertices:
                    want = [b for i, b in base.items() if f(i) == v.id][0]
                    d = np.array(v.pose) - want
                    nd = B.DIM[B.KIND_OF[type(v.pose)]]
                    dev = float(np.max(np.abs(d[:nd])))
                    if len(d) == 7:
                        dev = max(dev, min(float(np.max(np.abs(d[3:]))), float(np.max(np.abs(np.array(v.pose)[3:] + want[3:])))))
                    elif len(d) == 3 and nd == 2:
                        dev = max(dev, abs((d[2] + math.pi) % (2 * math.pi) - math.pi))
                    worst = max(worst, dev)
                run.count(key=('full', kind, seed, name, sc), nontrivial=True)
                if worst > 1e-6 or not (abs(r.final_chi2 - sc * rb.final_chi2) <= 1e-6 * sc * (1 + abs(rb.final_chi2))):
                    run.violation(dict(key, outcome='different-result'),
                                  '%s: optimize() result differs from the base representation: max pose deviation %.3g, final chi2 %r vs %g x %r, iterations %r vs %r (fixture %s seed %d)' % (
                                      name, worst, r.final_chi2, sc, rb.final_chi2, r.num_iterations, rb.num_iterations, kind, seed), dict(kind=kind, seed=seed, variant=name, scale=sc))
    run.notes['full_optimize_variant_runs'] = n
    run.replayed += n


def check(run, cases=None):
    cases = cases if cases is not None else gen(run.tier, run.seed)
    rnd = random.Random(run.seed + 5)
    # model-level theorem T6: TLC also assembles a copy of every graph with permuted vertex and edge lists and checks that its normal equations
    # are those of the original with coordinates renamed (invariant PermutationEquivariant)
    for c in cases:
        nv, ne = len(c['verts']), len(c['edges'])
        c['vperm'] = [x + 1 for x in rnd.sample(range(nv), nv)]
        c['eperm'] = [x + 1 for x in rnd.sample(range(ne), ne)]
    pairs = c03.evaluate(run, cases, 'MC_C08', conventions=('canon',), invariants=('Symmetric', 'PermutationEquivariant'))
    for c in cases:
        c.pop('vperm'), c.pop('eperm')
    pairs = [({k: v for k, v in c.items() if k not in ('vperm', 'eperm')}, o) for c, o in pairs]
    kinds_of_variant = {}
    for c, obs_list in pairs:
        obs = obs_list[0]
        run.replayed += 1
        if GC.has_wrap_atom(obs) or any(w[0] == 0 for w in obs['ws']):
            run.skip('angular error exactly +-pi / rotational error exactly a half turn')
            continue
        dx, cond = GC.exact_step(obs)
        if dx is None or cond > 1e8:
            run.skip('reduced system singular / ill-conditioned')
            continue
        full = np.zeros(obs['n'])
        for a, r in enumerate(obs['free']):
            full[r - 1] = dx[a]
        exp, off = {}, 0
        big = False
        for j, v in enumerate(c['verts']):
            n = B.CDIM[v['k']]
            exp[j] = full[off:off + n]
            off += n
            big = big or (v['k'] == 'SE3' and np.linalg.norm(exp[j][3:]) > 0.9) or (v['k'] == 'SE2' and abs(exp[j][2]) > 2.5)
        if big:
            run.skip('exact step outside the boxplus domain')
            continue
        chi2 = GC.exact_chi2(obs)
        nv, ne = len(c['verts']), len(c['edges'])
        se3_keys = [('v', j) for j, v in enumerate(c['verts']) if v['k'] == 'SE3'] + \
                   [('z', n) for n, e in enumerate(c['edges']) if e['cls'] == 'odo' and c['verts'][e['vs'][0] - 1]['k'] == 'SE3'] + \
                   [('o', n) for n, e in enumerate(c['edges']) if e['cls'] == 'lm' and c['verts'][e['vs'][0] - 1]['k'] == 'SE3']
        cross = any(any(e['W'][i][j] != 0 for i in range(3) for j in range(3, 6)) for e in c['edges'] if len(e['W']) == 6)
        variants = [('base', {}, 1.0)]
        perm_case, perm = GC.permute(c, rnd)
        variants.append(('permute-vertices', dict(case=perm_case, perm=perm), 1.0))
        variants.append(('permute-edges', dict(edge_order=lambda m: rnd.sample(range(m), m)), 1.0))
        for im in GC.ID_MAPS[1:]:
            variants.append(('relabel-ids', dict(idmap=im), 1.0))
        if any(v['k'] == 'SE2' for v in c['verts']):
            ms = {}
            variants.append(('shift-2pi', dict(shift=lambda what, j: ms.setdefault((what, j), rnd.randint(-3, 3))), 1.0))
        if se3_keys:
            if len(se3_keys) <= 5 and run.tier == 'thorough':
                patterns = [set(k for k, b in zip(se3_keys, bits) if b) for bits in itertools.product((0, 1), repeat=len(se3_keys))][1:]
            else:
                patterns = [set(k for k in se3_keys if rnd.random() < 0.5) or {se3_keys[0]} for _ in range(4)] + [{k} for k in se3_keys[:4]]
            for pat in patterns:
                variants.append(('negate-quaternions', dict(negq=pat), 1.0))
        variants.append(('split-edge', dict(split=rnd.randrange(ne)), 1.0))
        for sc in (0.25, 3.0, 1000.0):
            variants.append(('scale-information', dict(info_scale=sc), sc))
        for name, kw, sc in variants:
            kinds_of_variant[name] = kinds_of_variant.get(name, 0) + 1
            kw = dict(kw)
            case_v = kw.pop('case', c)
            pmap = kw.pop('perm', list(range(nv)))         # new position p holds base vertex pmap[p]
            idmap = kw.pop('idmap', None) or (lambda j: j)
            key = dict(variant=name, kinds=''.join(sorted(set(v['k'] for v in c['verts']))), cross_terms=bool(cross),
                       negated=sorted(set(k[0] for k in kw.get('negq', ()))) if name == 'negate-quaternions' else None)
            try:
                g = GC.build_graph(case_v, idmap, **kw)
                got_chi2, got = one_step(g)
            except Exception as ex:  # noqa
                run.violation(dict(key, outcome='raised'), '%s: %r | case %r' % (name, ex, c), dict(case=c, variant=name))
                continue
            run.count(key=(repr(c), name, repr(sorted(kw.get('negq', ()))), sc, repr(pmap)), nontrivial=name != 'base')
            tol_c = 1e-9 * (1.0 + abs(chi2)) * sc
            if abs(got_chi2 - sc * chi2) > tol_c:
                run.violation(dict(key, outcome='chi2'), '%s: chi2 %r, physical graph has %r (x%g) | %r | case %r' % (name, got_chi2, chi2, sc, sorted(kw.get('negq', ())), c),
                              dict(case=c, variant=name, negq=sorted(kw.get('negq', ()))))
                continue
            scale = 1.0 + float(np.max(np.abs(dx)))
            tol = 1e-9 * scale * max(1.0, cond * 1e-2)
            for p in range(nv):
                d = got[idmap(p)]
                e_ = exp[pmap[p]]
                dv = float(np.max(np.abs(d - e_))) if np.all(np.isfinite(d)) else float('inf')
                run.dev(min(dv, 1e9) / scale if dv <= tol else 0.0)
                if dv > tol:
                    run.violation(dict(key, outcome='step'), '%s: vertex %d step %r, physical graph has %r (dev %.3g > %.3g) | %r | case %r' % (
                        name, pmap[p], d.tolist(), e_.tolist(), dv, tol, sorted(kw.get('negq', ())), c), dict(case=c, variant=name, negq=sorted(kw.get('negq', ()))))
                    break
        if run.replayed % 13 == 1:
            run.sample(dict(case=c, exact_chi2=chi2, exact_step={str(k): v.tolist() for k, v in exp.items()}, variants=[v[0] for v in variants]))
    run.notes['variants_run'] = kinds_of_variant
    full_runs(run, rnd)
    run.rule = ('for every lattice graph TLC evaluates chi^2 and the reduced normal equations ONCE with the physical semantics (rotation = {q,-q}, angle mod '
                '2pi, graph = multiset of edges over vertices keyed by id); every representation of it (vertex / edge list permutations, id relabelling incl. '
                'negative and > 2^32, 2*pi*m shifts, sign patterns of vertex / measurement / offset quaternions, an edge split into two halves, information '
                'scaled by 0.25 / 3 / 1000) is built in the code and must reproduce that chi^2 (scaled) and that first step per vertex; non-trivial = every '
                'non-base variant')
    run.assumptions = ['one step from lattice states (DESIGN.md L2); multi-iteration equality of representations is compared code-vs-code in the thorough tier',
                       'cases whose rotational error is exactly a half turn or whose angular error is exactly +-pi are excluded (sign undetermined)']


def replay(run, rep):
    check(run, cases=[rep['case']['case']])
