"""C03: one optimizer iteration is exactly the Gauss-Newton step (exact normal equations in TLA+, one real step compared)."""
import contextlib
import io
import random

import numpy as np

from .. import build as B
from .. import edgecases as EC
from .. import graphcases as GC


def gen(tier, seed):
    rnd = random.Random(seed * 31 + 3)
    thorough = tier == 'thorough'
    cases = []
    reps = 120 if thorough else 8
    for kind in ('R2', 'R3', 'SE2', 'SE3'):
        for n_poses in (2, 3, 4):
            for _ in range(reps):
                n_lm = rnd.choice([0, 1, 2]) if kind in ('SE2', 'SE3') else rnd.choice([0, 1])
                c = GC.gen_graph(rnd, kind, n_poses, n_lm, rnd.choice([0, 1, 2]), custom=(rnd.random() < 0.35),
                                 fixed_mode=rnd.choice(['first', 'some', 'landmark']), fix_first=rnd.random() < 0.6)
                if rnd.random() < 0.6:
                    c, _ = GC.permute(c, rnd)
                if rnd.random() < 0.15:
                    c = GC.far_vertex(c, rnd)          # a badly initialised point: steps of several thousand units
                cases.append(c)
    # mixed dimensionality: an SE(2) and an SE(3) component (and R^n components) in one graph
    for _ in range(60 if thorough else 5):
        a = GC.gen_graph(rnd, rnd.choice(['SE2', 'R2']), 2, 1, 0, fixed_mode='some', fix_first=True)
        b = GC.gen_graph(rnd, rnd.choice(['SE3', 'R3']), 2, 1, 0, fixed_mode='some', fix_first=True)
        c = GC.merge(a, b, rnd)
        c, _ = GC.permute(c, rnd)
        cases.append(c)
    # larger graphs
    for _ in range(30 if thorough else 2):
        kind = rnd.choice(['SE2', 'SE3', 'R2', 'R3'])
        c = GC.gen_graph(rnd, kind, rnd.randint(5, 8), rnd.randint(0, 2), rnd.randint(2, 6), custom=False, fixed_mode='some', fix_first=True)
        c, _ = GC.permute(c, rnd)
        cases.append(c)
    for kind, n in ((('R2', 14), ('SE2', 10), ('SE3', 8)) if not thorough else (('R2', 14), ('R3', 20), ('R2', 30), ('SE2', 10), ('SE2', 18), ('SE3', 8), ('SE3', 12))):
        c = GC.gen_graph(rnd, kind, n, 2, n // 2, custom=False, fixed_mode='some', fix_first=rnd.random() < 0.5)
        c, _ = GC.permute(c, rnd)
        cases.append(c)
    return [c for c in cases if GC.components_fixed(c)]


def hclass(c):
    return (tuple(v['k'] for v in c['verts']), tuple(e['cls'] for e in c['edges']), tuple((v['r'][-1] if v['r'] else 0) for v in c['verts']))


def sign_sensitive(c):
    return any(e['cls'] == 'odo' and c['verts'][e['vs'][0] - 1]['k'] == 'SE3' for e in c['edges'])


def evaluate(run, cases, name, conventions=('canon', 'raw'), invariants=('Symmetric',)):
    """TLC evaluates every case under the sign-canonical convention of the SE(3) rotational error and, where it can differ,
    under the raw one as well.  Returns list of (case, [obs_canon, obs_raw?])."""
    old = EC.headroom_class
    EC.headroom_class = hclass
    try:
        K = max(GC.needed_K(c) for c in cases)
        expanded = []
        for n, c in enumerate(cases):
            for conv in conventions:
                if conv == 'raw' and not sign_sensitive(c):
                    continue
                expanded.append(dict(c, conv=conv, base=n))
        pairs = EC.evaluate(expanded, K, name, run, spec='MC_Assembly', invariants=invariants, max_retry=80)
        out = {}
        for c, obs in pairs:
            out.setdefault(c['base'], []).append(obs)
            obs['conv'] = c['conv']
        return [(cases[n], out[n]) for n in sorted(out)]
    finally:
        EC.headroom_class = old


def step_compare(run, c, obs_list, key, idmap=None, tol_scale=1.0, warmup=False, builder=None):
    """Run one real iteration from the lattice state and compare the applied increment with the exact Gauss-Newton step.
    obs_list: exact normal equations under the canonical and (if different) the raw sign convention; either is accepted."""
    obs = obs_list[0]
    if sign_sensitive(c) and len(obs_list) < 2 and not any(o.get('conv') == 'canon' for o in obs_list) and any(w[0] < 0 for w in obs['ws']):
        # only the RAW-convention evaluation of this case fitted TLC's integers: the code may use the canonical convention (it does), and the two
        # differ here (an error quaternion with w < 0) -- nothing to compare with
        run.skip('the canonical-convention evaluation exceeded TLC headroom (raw one only): not judged')
        return None
    if GC.has_wrap_atom(obs):
        run.skip('an SE(2) angular error is exactly +-pi (excluded: the error function is discontinuous there)')
        return None
    if any(w[0] == 0 for w in obs['ws']):
        run.skip('an SE(3) rotational error is exactly a half turn (sign of the error quaternion undetermined)')
        return None
    sols = [GC.exact_step(o) for o in obs_list]
    dx, cond = sols[0]
    if dx is None or cond > 1e9:
        run.skip('reduced system singular / ill-conditioned (not well-posed)')
        return None
    g = (builder or GC.build_graph)(c, idmap)
    if run.replayed % 4 == 2 and len(g._vertices) >= 3:
        # History dimension: after construction the caller re-orders the tail of the vertex list it handed over (the Graph keeps that very list
        # object).  Where a vertex's unknowns sit in the normal equations was settled at construction and must not be re-derived from positions.
        lst = g._vertices
        lst[-1], lst[-2] = lst[-2], lst[-1]
        run.notes['vertex_list_reordered_after_construction'] = run.notes.get('vertex_list_reordered_after_construction', 0) + 1
    info_scale = 1.0
    if builder is None and run.replayed % 3 == 1:
        # the Gauss-Newton step does not depend on a common positive factor of all information matrices (exact powers of two)
        info_scale = [2.0 ** -40, 2.0 ** 30][run.replayed % 2]
        for e in g._edges:
            e.information = e.information.astype(float) * info_scale
        run.notes['scaled_information_cases'] = run.notes.get('scaled_information_cases', 0) + 1
    idm = idmap or (lambda j: j)
    by_id = {v.id: v for v in g._vertices}
    listed = [by_id[idm(j)] for j in range(len(c['verts']))]          # the vertex objects in the order of the case (as supplied)
    old = [v.pose.copy() for v in listed]
    custom = any(e['cls'] in ('prior', 'relpose', 'range', 'mid') for e in c['edges'])

    def per_vertex(o, d):
        full = np.zeros(o['n'])
        for a, r in enumerate(o['free']):
            full[r - 1] = d[a]
        out, off = [], 0
        for v in c['verts']:
            n = B.CDIM[v['k']]
            out.append(full[off:off + n])
            off += n
        return out
    exps = [per_vertex(o, s[0]) for o, s in zip(obs_list, sols) if s[0] is not None]
    for exp in exps:
        for v, d in zip(c['verts'], exp):
            if v['k'] == 'SE3' and np.linalg.norm(d[3:]) > 0.9:
                run.skip('exact step has a rotational increment of norm > 0.9 (outside the boxplus domain)')
                return None
            if v['k'] == 'SE2' and abs(d[2]) > 2.5:
                run.skip('exact step has an angular increment near +-pi')
                return None
    if warmup and run.notes.get('warmup_histories', 0) % 3 == 2:
        # History dimension: the edge objects were used before in ANOTHER graph built from other vertex objects with the same ids but other
        # poses; the graph under test is then constructed from the same edge objects and the case's vertices.
        from graphslam.graph import Graph
        from graphslam.vertex import Vertex
        try:
            other = [Vertex(v.id, v.pose + np.full(v.pose.COMPACT_DIMENSIONALITY, 0.125), fixed=v.fixed) for v in g._vertices]
            for e in g._edges:
                e.vertices = None               # freshly created edges (never linked) ...
            Graph(g._edges, other)              # ... used in a first graph over other vertex objects ...
        except Exception:  # noqa
            pass
        g = Graph(g._edges, g._vertices)        # ... and then in the graph under test
        run.notes['warmup_histories'] = run.notes.get('warmup_histories', 0) + 1
        run.notes['edge_reuse_histories'] = run.notes.get('edge_reuse_histories', 0) + 1
    elif warmup:
        # History dimension: the same Graph object has already been optimised once with a SMALLER fixed set; afterwards the user
        # restores the poses and marks more vertices fixed.  The step must depend on the current state only (no stale linear system).
        want = [bool(v.fixed) for v in listed]
        fixed_idx = [j for j, f in enumerate(want) if f] or [0]
        grow = run.notes.get('warmup_histories', 0) % 2 == 0
        for j, v in enumerate(listed):
            # the fixed set of the earlier call is smaller (it grows afterwards) or larger (vertices are released afterwards)
            v.fixed = (j == fixed_idx[-1]) if grow else (want[j] or j % 2 == 1)
        try:
            with contextlib.redirect_stdout(io.StringIO()):
                g.optimize(tol=0.0, max_iter=1, fix_first_pose=False, verbose=False)
        except Exception:  # noqa
            pass
        for v, p, f in zip(listed, old, want):
            v.pose = p.copy()
            v.fixed = f
        run.notes['warmup_histories'] = run.notes.get('warmup_histories', 0) + 1
    try:
        with contextlib.redirect_stdout(io.StringIO()):
            ret = g.optimize(tol=0.0, max_iter=1, fix_first_pose=c['fixFirst'], verbose=False)
    except Exception as ex:  # noqa
        run.violation(dict(key, outcome='raised'), 'optimize raised %r on a well-posed lattice graph | case %r' % (ex, c), dict(case=c))
        return None
    try:
        got = [np.asarray((v.pose - p0).to_compact(), dtype=float) for p0, v in zip(old, listed)]
    except Exception as ex:  # noqa
        run.violation(dict(key, outcome='raised'), 'vertex poses unusable after optimize: %r | case %r' % (ex, c), dict(case=c))
        return None
    scale = (1.0 + float(np.max(np.abs(dx)))) if len(dx) else 1.0
    tol = (2e-5 if custom else 1e-10) * scale * max(1.0, cond ** 0.5 if custom else cond * 1e-2) * tol_scale
    best = None
    for ci, exp in enumerate(exps):
        worst, bad = 0.0, None
        for j, (d_got, d_exp) in enumerate(zip(got, exp)):
            dv = float(np.max(np.abs(d_got - d_exp))) if np.all(np.isfinite(d_got)) else float('inf')
            if dv > worst:
                worst, bad = dv, j
        if best is None or worst < best[0]:
            best = (worst, bad, ci)
    worst, bad, ci = best
    conv = obs_list[ci]['conv']
    run.notes['convention_matched_' + conv] = run.notes.get('convention_matched_' + conv, 0) + 1
    if worst > tol:
        j = bad
        fx = c['verts'][j]['fixed'] or (c['fixFirst'] and j == 0)
        nan = not np.all(np.isfinite(got[j]))
        run.violation(dict(key, outcome='wrong-step', vertex_fixed=bool(fx), nan=bool(nan)),
                      'vertex %d (%s, %s): applied increment %r, exact Gauss-Newton step %r (dev %.3g > %.3g, cond %.3g) | case %r' % (
                          j, c['verts'][j]['k'], 'fixed' if fx else 'free', got[j].tolist(), exps[0][j].tolist(), worst, tol, cond, c),
                      dict(case=c, expected_dx=[e.tolist() for e in exps[0]]))
    else:
        run.dev(worst / scale)
    chi2 = GC.exact_chi2(obs_list[ci])
    chi2 = chi2 * info_scale
    if not (abs(ret.initial_chi2 - chi2) <= 1e-9 * (info_scale + abs(chi2))):
        run.violation(dict(key, outcome='initial-chi2'), 'initial_chi2 %r, exact chi2 %r | case %r' % (ret.initial_chi2, chi2, c), dict(case=c))
    return g, exps[ci], ret, conv


def error_object_twins(run):
    """What a user-defined error function returns is an array of numbers -- a plain ndarray or an ndarray SUBCLASS such as PoseR2 / PoseR3 (a
    position residual is naturally one).  The applied step must not depend on the Python type of the error: twin graphs, one whose position prior
    returns PoseRn objects (and is listed first) and one returning plain arrays, take the same step."""
    import contextlib
    import copy
    import io
    from graphslam.edge.base_edge import BaseEdge
    from graphslam.graph import Graph
    from graphslam.pose.r2 import PoseR2
    from graphslam.pose.r3 import PoseR3
    from .. import graphs

    class PosPriorArr(BaseEdge):
        def calc_error(self):
            return np.array(self.vertices[0].pose.position) - np.asarray(self.estimate)

        def is_valid(self):
            return self._is_valid() and len(self.vertices) == 1

    class PosPriorObj(PosPriorArr):
        def calc_error(self):
            d = np.array(self.vertices[0].pose.position) - np.asarray(self.estimate)
            return (PoseR2 if len(d) == 2 else PoseR3)(d)
    n = 0
    for kind in ('SE2', 'SE3', 'R2', 'R3'):
        for seed in (run.seed, run.seed + 1):
            res = []
            for cls in (PosPriorArr, PosPriorObj):
                es, vs, _ = graphs.make(kind, seed, n_landmarks=1)
                d = B.DIM[kind]
                target = vs[2]
                prior = cls([target.id], np.eye(d) * 3.0, np.array(target.pose.position) + 0.25)
                g = Graph([prior] + es, vs)
                with contextlib.redirect_stdout(io.StringIO()):
                    g.optimize(tol=0.0, max_iter=1, verbose=False)
                res.append([np.array(v.pose) for v in g._vertices])
            n += 1
            run.count(key=('error-object-twin', kind, seed), nontrivial=True)
            dv = max(float(np.max(np.abs(a - b))) for a, b in zip(*res))
            if not dv <= 1e-9:
                run.violation(dict(part='error-object-twin', kind=kind), 'one iteration differs by %.3g between a position prior returning PoseRn objects and one returning plain arrays (kind %s, fixture seed %d)' % (dv, kind, seed),
                              dict(kind=kind, seed=seed))
    run.notes['error_object_twins'] = n


def check(run, cases=None):
    cases_given = cases
    cases = cases if cases is not None else gen(run.tier, run.seed)
    pairs = evaluate(run, cases, 'MC_C03')
    rnd = random.Random(run.seed)
    feats = {'reversed_edge': 0, 'parallel_edges': 0, 'mixed_dims': 0, 'several_fixed': 0, 'custom_edges': 0, 'ternary': 0, 'unary': 0, 'fix_first_false': 0}
    for c, obs_list in pairs:
        obs = obs_list[0]
        run.replayed += 1
        key = dict(kinds=''.join(sorted(set(v['k'] for v in c['verts']))))
        pairs_seen = set()
        par = False
        for e in c['edges']:
            if len(e['vs']) == 2:
                par = par or (frozenset(e['vs']) in pairs_seen)
                pairs_seen.add(frozenset(e['vs']))
        feats['reversed_edge'] += any(len(e['vs']) == 2 and e['vs'][0] > e['vs'][1] for e in c['edges'])
        feats['parallel_edges'] += par
        feats['mixed_dims'] += len(set(B.CDIM[v['k']] for v in c['verts'])) > 1
        feats['several_fixed'] += sum(v['fixed'] for v in c['verts']) > 1
        feats['custom_edges'] += any(e['cls'] in ('prior', 'relpose', 'range', 'mid') for e in c['edges'])
        feats['ternary'] += any(len(e['vs']) == 3 for e in c['edges'])
        feats['unary'] += any(len(e['vs']) == 1 for e in c['edges'])
        feats['fix_first_false'] += not c['fixFirst']
        r = step_compare(run, c, obs_list, key, idmap=rnd.choice(GC.ID_MAPS), warmup=(run.replayed % 2 == 0))
        run.count(key=repr(c), nontrivial=r is not None and len(obs['free']) > 0)
        if r is not None and run.replayed % 29 == 1:
            run.sample(dict(case=c, exact_free_coordinates=obs['free'], exact_step=[e.tolist() for e in r[1]], initial_chi2=r[2].initial_chi2))
    run.notes['features_covered'] = feats
    if min(feats.values()) == 0 and cases_given is None:
        raise RuntimeError('vacuity guard: a feature of the quantifier was never generated: %r' % feats)
    if cases_given is None:
        error_object_twins(run)
        from . import c04
        c04.large_tree(run, one_step=True)       # size dimension: thousands of vertices, exact step known in closed form
    if cases_given is None:
        # histories: the contributions of an edge and a ONE-iteration call are those of the current numbers also after optimizer runs and the
        # user's edits (the same call on a graph rebuilt from the current numbers moves the poses to the same bits)
        from .. import scenario
        scenario.histories(run, ['se2', 'se3', 'r2', 'r3', 'mixed', 'se2c', 'se3reg', 'se2fix'], 60 if run.tier == 'thorough' else 8, 14,
                           lambda cl, ev: (cl == 'query-fresh' and ev.get('q') == 'edge_contribs') or (cl == 'opt-fresh' and ev['maxIter'] == 1 and not ev['rep']['freshPosesOk']),
                           max_iters=(1, 1, 2))
    run.rule = ('lattice graphs of 2-8 vertices (R2, R3, SE2+R2, SE3+R3, mixed dimensionality), edges naming vertices in either order, parallel edges, '
                'landmark edges with rotated offsets, unary/binary/ternary custom edges with numerical Jacobians, random fixed subsets, fix_first_pose T/F, '
                'permuted vertex lists, four id maps (dense, negative, > 2^32, descending); TLC assembles the reduced normal equations exactly (H symmetric '
                'checked on the model); Fractions solve; the increment applied by optimize(tol=0,max_iter=1) is recovered with the library (-) and compared; '
                'non-trivial = distinct well-posed graph with at least one free coordinate, not skipped')
    run.assumptions = ['exact solve of the reduced system by Fraction Gaussian elimination (TLC integers overflow beyond ~5 unknowns, DESIGN.md 3.3)',
                       'the applied increment is recovered with the library\'s own ominus (decided by C09)', 'one step from lattice states (DESIGN.md L2)',
                       'numerical-Jacobian custom edges: tolerance 2e-5*sqrt(cond) instead of 1e-12*cond']


def replay(run, rep):
    if 'case' not in (rep.get('case') or {}):
        return check(run)          # (a violation found along a history: the histories are regenerated from the seed and replayed as a whole)
    check(run, cases=[rep['case']['case']])
