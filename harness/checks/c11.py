"""C11: manifold invariants - SE(2) angles stay in [-pi, pi] congruent to the exact angle, SE(3) quaternions stay unit, normalize()."""
import contextlib
import glob
import io
import math
import os
import random
import shutil
import subprocess

import numpy as np

from graphslam.edge.edge_odometry import EdgeOdometry
from graphslam.g2o_parameters import G2OParameterSE2Offset
from graphslam.graph import Graph
from graphslam.vertex import Vertex
from graphslam.pose.se2 import PoseSE2
from graphslam.pose.se3 import PoseSE3
from graphslam.util import neg_pi_to_pi

from .. import build as B
from .. import edgecases as EC
from .. import graphs
from .. import posecases as PC
from .. import tlc, tlaval

EPS = np.finfo(float).eps
N = 180


def apalache_lemma(run):
    d = tlc.scratch('verif-apa-')
    try:
        shutil.copy(os.path.join(tlc.SPEC_DIR, 'apalache', 'WrapLemma.tla'), d)
        p = subprocess.run(['apalache-mc', 'check', '--init=Init', '--next=Next', '--inv=Inv', '--length=1', '--out-dir=' + os.path.join(d, 'out'), 'WrapLemma.tla'],
                           cwd=d, stdout=subprocess.PIPE, stderr=subprocess.STDOUT, timeout=600)
        out = p.stdout.decode('utf-8', 'replace')
        if 'The outcome is: NoError' not in out:
            raise tlc.TLCError('Apalache did not discharge the wrap lemma:\n' + out[-1500:])
        run.notes['apalache_wrap_lemma'] = 'NoError (range, congruence, idempotence of Wrap for all integers m; N = 180)'
        run.states += 1
        run.transitions += 1
    finally:
        shutil.rmtree(d, ignore_errors=True)


def _iadd(p, d):
    p += d
    return float(p[2])


def wrap_conformance(run):
    """The float function against the integer lemma: angles m*pi/N at and around every boundary, up to ~1e6 rad."""
    ms = set()
    for k in list(range(-6, 7)) + [10 ** 3, -10 ** 3, 159154, -159155, 31831 * 5]:
        for d in (-2, -1, 0, 1, 2):
            ms.add(k * 2 * N + d)
            ms.add(k * 2 * N + N + d)
            ms.add(k * 2 * N - N + d)
    for k in list(range(300, 330)) + list(range(-330, -300)) + list(range(4000, 4030)) + list(range(-4030, -4000)) + list(range(100000, 100010)):
        ms.add(k * 2 * N + N)                          # many large odd multiples of pi (whatever the seed): the rounding of the wrap shows there
        ms.add(k * 2 * N + N - 1)
    rnd = random.Random(run.seed)
    ms |= {rnd.randint(-57295780, 57295780) for _ in range(400)}
    for m in sorted(ms):
        a = m * math.pi / N
        w = ((m + N) % (2 * N)) - N                    # the lemma's Wrap
        exp = w * math.pi / N
        tol = 4 * EPS * (1 + abs(a))
        for name, got in (('neg_pi_to_pi', float(neg_pi_to_pi(a))), ('PoseSE2 constructor', float(PoseSE2([1.0, 2.0], a)[2])),
                          ('inverse', -float(PoseSE2([0.0, 0.0], -a).inverse[2]) if False else float(PoseSE2([0.5, -1.0], -a).inverse[2])),
                          ('compose', float((PoseSE2([1.0, 1.0], a / 2) + PoseSE2([2.0, 0.0], a - a / 2))[2])),
                          ('difference', float((PoseSE2([1.0, 1.0], a) - PoseSE2([2.0, 0.0], 0.0))[2])),
                          ('update', float((PoseSE2([1.0, 1.0], 0.0) + np.array([0.0, 0.0, a]))[2])),
                          ('update +=', _iadd(PoseSE2([1.0, 1.0], 0.25), np.array([0.5, 0.0, a - 0.25]))),
                          ('copy', float(PoseSE2([1.0, 2.0], a).copy()[2])),
                          ('from_matrix', float(PoseSE2.from_matrix(np.array([[math.cos(a), -math.sin(a), 1.0], [math.sin(a), math.cos(a), 2.0], [0.0, 0.0, 1.0]]))[2])),
                          ('from_matrix(product)', float(PoseSE2.from_matrix(PoseSE2([1.0, 0.0], a / 3).to_matrix() @ PoseSE2([0.0, 1.0], a / 3).to_matrix()
                                                                             @ PoseSE2([0.0, 0.0], a - a / 3 - a / 3).to_matrix())[2])),
                          ('VERTEX_SE2 line', float(Vertex.from_g2o('VERTEX_SE2 7 1.0 2.0 %r\n' % a).pose[2])),
                          ('EDGE_SE2 line', float(EdgeOdometry.from_g2o('EDGE_SE2 1 2 0.5 0.0 %r 1 0 0 1 0 1\n' % a).estimate[2])),
                          ('PARAMS_SE2OFFSET line', float(G2OParameterSE2Offset.from_g2o('PARAMS_SE2OFFSET 0 0.0 0.0 %r\n' % a).value[2]))):
            run.count(key=(name, m), nontrivial=abs(m) > N)
            if name == 'compose' and m in (181, -100000 * 360 + 179):
                run.sample(dict(wrap_case=dict(m=m, N=N, angle=a, lemma_wrap_units=w, code_result=got, operation=name)))
            ok_range = -math.pi <= got <= math.pi
            d = got - exp
            ok_cong = min(abs(d), abs(abs(d) - 2 * math.pi)) <= tol * (3 if name in ('compose', 'update +=') else 8 if name.startswith('from_matrix') else 1)
            if not (ok_range and ok_cong):
                run.violation(dict(part='wrap', op=name), '%s of angle %d*pi/%d = %r gives %r; exact wrap is %r (range ok %s, congruent %s)' % (name, m, N, a, got, exp, ok_range, ok_cong),
                              dict(m=m, N=N, op=name))
                break


def chains(run, kind, num, depth):
    """Closed-group chains generated by TLC (-simulate on PoseChain), replayed on real poses after every action."""
    if kind == 'SE2':
        gens = [dict(t=[1, 0], r=[0, 1, 1]), dict(t=[0, 2], r=[-1, 0, 1]), dict(t=[-1, 1], r=[0, -1, 1]), dict(t=[3, -2], r=[1, 0, 1]), dict(t=[0, 0], r=[0, 1, 1])]
        incs = [dict(dt=[1, -1], dr=[0, 1, 1]), dict(dt=[0, 0], dr=[-1, 0, 1]), dict(dt=[2, 0], dr=[1, 0, 1]), dict(dt=[0, 1], dr=[0, -1, 1])]
    else:
        gens = [dict(t=[1, 0, 0], r=[1, 1, 1, 1, 2]), dict(t=[0, 2, -1], r=[0, 0, 1, 0, 1]), dict(t=[-1, 1, 0], r=[-1, 1, -1, -1, 2]), dict(t=[0, 0, 3], r=[1, 0, 0, 0, 1]),
                dict(t=[2, -2, 1], r=[1, -1, 1, -1, 2]), dict(t=[0, 0, 0], r=[0, 0, 0, -1, 1])]
        incs = [dict(dt=[1, 0, -1], dr=[1, 1, 1, 2]), dict(dt=[0, 0, 0], dr=[-1, 1, -1, 2]), dict(dt=[0, 2, 0], dr=[1, 0, 0, 1]), dict(dt=[1, 1, 1], dr=[0, 0, 0, 1]), dict(dt=[0, 0, 0], dr=[0, -1, 0, 1])]
    mc = ('---- MODULE MC_Chain ----\nEXTENDS PoseChain\nKK == 0\nKindDef == "%s"\nGensDef == %s\nIncsDef == %s\n====\n' % (kind, B.tla(gens), B.tla(incs)))
    cfg = 'SPECIFICATION Spec\nCONSTANTS\n K <- KK\n Kind <- KindDef\n Gens <- GensDef\n Incs <- IncsDef\nINVARIANT OnManifold\n'
    workers = 8
    res = tlc.run('MC_Chain', cfg, mc_text=mc, simulate=max(1, num // workers), depth=depth, seed=run.seed + (1 if kind == 'SE2' else 2), dump=True, workers=workers, timeout=3000)
    try:
        if res.violation:
            raise tlc.TLCError('PoseChain violates %s' % res.violation)
        run.add_tlc(res, 'PoseChain %s (simulate, depth %d)' % (kind, depth))
        files = sorted(glob.glob(os.path.join(res.dir, 'sim', 'tr_*')))[:num]
        rnd = random.Random(run.seed + 3)
        total_ops = 0
        for f in files:
            states = tlaval.parse_sim_file(f)
            cls = B.CLS_OF[kind]
            cur = cls.identity()
            # conjugation by a generic pose: same abstract chain, rounding exercised
            if kind == 'SE2':
                g = PoseSE2([rnd.uniform(-3, 3), rnd.uniform(-3, 3)], rnd.uniform(-3, 3))
            else:
                q = np.array([rnd.gauss(0, 1) for _ in range(4)])
                g = PoseSE3([rnd.uniform(-3, 3) for _ in range(3)], q / np.linalg.norm(q))
            gi = g.inverse
            conj = lambda p: g + p + gi     # noqa
            ccur = conj(cur)
            G = [B.pose(kind, x['t'], x['r']) for x in gens]
            CG = [conj(p) for p in G]
            n = 0
            run.replayed += 1
            tmax = 1.0
            for act, st in states[1:]:
                a = st['arg']
                n += 1
                j = a['x']
                op = a['op']
                if op == 'compose_right':
                    cur, ccur = cur + G[j - 1], ccur + CG[j - 1]
                elif op == 'compose_left':
                    cur, ccur = G[j - 1] + cur, CG[j - 1] + ccur
                elif op == 'diff_right':
                    cur, ccur = cur - G[j - 1], ccur - CG[j - 1]
                elif op == 'diff_left':
                    cur, ccur = G[j - 1] - cur, CG[j - 1] - ccur
                elif op == 'inverse':
                    cur, ccur = cur.inverse, ccur.inverse
                elif op == 'update':
                    d = incs[j - 1]
                    if kind == 'SE2':
                        delta = np.array([float(d['dt'][0]), float(d['dt'][1]), math.atan2(d['dr'][1], d['dr'][0])])
                        dp = PoseSE2(delta[:2], delta[2])
                    else:
                        den = float(d['dr'][3])
                        delta = np.array([float(x) for x in d['dt']] + [d['dr'][0] / den, d['dr'][1] / den, d['dr'][2] / den])
                        dp = PoseSE3(delta[:3], [delta[3], delta[4], delta[5], math.sqrt(max(0.0, 1 - float(np.dot(delta[3:], delta[3:]))))])
                    cur = cur + delta                  # boxplus through the ndarray operand
                    ccur = ccur + conj(dp)
                key = dict(part='chain', kind=kind, op=op)
                dt, dr, _ = PC.pose_dev(cur, st['cur'])
                tmax = max(tmax, float(np.max(np.abs(np.asarray(cur)[:B.DIM[kind]]))))
                run.dev(max(dt, dr))
                # (an update re-computes the scalar part with a square root, so even inside the closed group rounding enters and accumulates)
                if dt > 1e-12 + 500 * EPS * n * (1 + tmax) or dr > 1e-14 + 50 * EPS * n:
                    run.violation(dict(key, outcome='exact-chain'), 'after %d operations (last: %s) the pose is %r, exact %r' % (n, op, np.asarray(cur).tolist(), st['cur']), dict(file=os.path.basename(f), step=n))
                    break
                if kind == 'SE2' and not (-math.pi <= cur[2] <= math.pi and -math.pi <= ccur[2] <= math.pi):
                    run.violation(dict(key, outcome='angle-range'), 'after %d operations (last: %s) the angle is %r / %r' % (n, op, cur[2], ccur[2]), dict(step=n))
                    break
                if kind == 'SE3':
                    for which, p in (('lattice', cur), ('conjugated', ccur)):
                        nd = abs(float(np.linalg.norm(np.asarray(p)[3:])) - 1.0)
                        if nd > 8 * EPS * (n + 1):
                            run.violation(dict(key, outcome='unit-norm', chain=which), 'after %d operations (last: %s) | |q| - 1 | = %.3g > %.3g' % (n, op, nd, 8 * EPS * (n + 1)), dict(step=n))
                            break
                    else:
                        continue
                    break
                if n % 97 == 0 or n == len(states) - 1:
                    # the conjugated chain against g (+) exact (+) g^-1
                    want = conj(cur)
                    d = np.asarray(ccur, dtype=float) - np.asarray(want, dtype=float)
                    nd_ = B.DIM[kind]
                    dtc = float(np.max(np.abs(d[:nd_])))
                    drc = abs((d[2] + math.pi) % (2 * math.pi) - math.pi) if kind == 'SE2' else min(float(np.max(np.abs(d[3:]))), float(np.max(np.abs(np.asarray(ccur)[3:] + np.asarray(want)[3:]))))
                    if dtc > 500 * EPS * n * (1 + tmax) * 4 or drc > 50 * EPS * n:
                        run.violation(dict(key, outcome='conjugated-chain'), 'after %d operations the conjugated chain deviates by %.3g (translation) %.3g (rotation)' % (n, dtc, drc), dict(step=n))
                        break
            total_ops += n
            if f == files[0]:
                run.sample(dict(chain=kind, operations=[st['arg'] for _, st in states[1:8]], exact_state_after_7=states[7][1]['cur'] if len(states) > 7 else None,
                                real_pose_at_end=np.asarray(cur).tolist(), operations_replayed=n))
            run.count(key=(kind, os.path.basename(f)), nontrivial=n > 10)
        run.notes['chain_operations_' + kind] = total_ops
    finally:
        res.cleanup()


def optimizer_runs(run, thorough):
    rnd = random.Random(run.seed + 9)
    n_runs = 0
    for kind in ('SE3', 'SE2'):
        for rep in range(6 if thorough else 2):
            es, vs, _ = graphs.make(kind, rnd.randrange(10 ** 6), n_poses=6, n_landmarks=2, closures=3, dt=0.3, dr=0.2, noise=0.02)
            g = Graph(es, vs)
            for it in range(1, (51 if thorough else 21)):
                with contextlib.redirect_stdout(io.StringIO()):
                    g.optimize(tol=0.0, max_iter=1, verbose=False)
                for v in g._vertices:
                    if isinstance(v.pose, PoseSE3):
                        nd = abs(float(np.linalg.norm(np.asarray(v.pose)[3:])) - 1.0)
                        if nd > 8 * EPS * (it + 1):
                            run.violation(dict(part='optimizer', outcome='unit-norm'), 'vertex %r after %d iterations: | |q| - 1 | = %.3g' % (v.id, it, nd), dict(kind=kind, iteration=it))
                            return
                    elif isinstance(v.pose, PoseSE2) and not (-math.pi <= v.pose[2] <= math.pi):
                        run.violation(dict(part='optimizer', outcome='angle-range'), 'vertex %r after %d iterations: angle %r' % (v.id, it, v.pose[2]), dict(kind=kind, iteration=it))
                        return
            n_runs += 1
            run.count(key=('opt', kind, rep), nontrivial=True)
    run.notes['optimizer_runs_monitored'] = n_runs


def normalize_cases(run):
    cases = [c for c in PC.gen_cases('quick', run.seed + 4) if c['k'] == 'SE3' and not c.get('lite')][:60]
    old = EC.headroom_class
    EC.headroom_class = PC.headroom_class
    try:
        pairs = EC.evaluate(cases, 0, 'MC_C11n', run, spec='MC_PoseCases', invariants=('InputsUnit',))
    finally:
        EC.headroom_class = old
    for c, obs in pairs:
        q = np.array([float(x) for x in c['nq']])
        p = PoseSE3([1.0, -2.0, 3.0], q)
        inv_before = np.array(p.inverse)           # (a result obtained before the in-place normalisation must not leak into later results)
        p.normalize()
        inv_after = np.array(p.inverse)
        if abs(float(np.linalg.norm(inv_after[3:])) - 1.0) > 8 * EPS or float(np.max(np.abs(inv_after[3:] - np.array([-1, -1, -1, 1]) * np.asarray(p)[3:]))) > 4 * EPS:
            run.violation(dict(part='normalize', outcome='stale-inverse'), 'inverse after normalize() of %r is %r (before normalize: %r)' % (c['nq'], inv_after[3:].tolist(), inv_before[3:].tolist()), dict(q=c['nq']))
        exp = PC.fv(obs['normalize'])
        run.count(key=('normalize', tuple(c['nq'])), nontrivial=True)
        run.replayed += 1
        pu = PoseSE3([0.5, 0.25, -1.0], q / np.linalg.norm(q))           # the same rotation given as an (already) unit quaternion, possibly with w < 0
        pu.normalize()
        if float(np.max(np.abs(np.asarray(pu)[3:] - exp))) > 8 * EPS:
            run.violation(dict(part='normalize', outcome='unit-input'), 'normalize() of the unit quaternion %r gives %r, exact %r' % ((q / np.linalg.norm(q)).tolist(), np.asarray(pu)[3:].tolist(), exp.tolist()), dict(q=c['nq']))
        if float(np.max(np.abs(np.asarray(p)[3:] - exp))) > 4 * EPS or not np.array_equal(np.asarray(p)[:3], [1.0, -2.0, 3.0]):
            run.violation(dict(part='normalize'), 'normalize() of %r gives %r, exact %r' % (c['nq'], np.asarray(p)[3:].tolist(), exp.tolist()), dict(q=c['nq']))


def half_turn_matrices(run):
    """from_matrix on products of three rotations whose headings sum to pi (a half turn up to rounding: the two off-diagonal entries of the
    product may disagree in the sign of their last bits): the angle is in range and congruent to pi."""
    n = 0
    for a10 in range(1, 31):
        for b10 in range(1, 31, 2):
            a, b = a10 / 10.0, b10 / 10.0
            c = math.pi - a - b
            for sg in (1, -1):
                M = PoseSE2([1.0, 2.0], sg * a).to_matrix() @ PoseSE2([0.5, 0.0], sg * b).to_matrix() @ PoseSE2([0.0, -1.0], sg * c).to_matrix()
                got = float(PoseSE2.from_matrix(M)[2])
                n += 1
                run.count(key=('half-turn-matrix', a10, b10, sg), nontrivial=True)
                if not (-math.pi <= got <= math.pi) or abs(abs(got) - math.pi) > 64 * EPS:
                    run.violation(dict(part='wrap', op='from_matrix(half-turn product)'), 'from_matrix of R(%r) R(%r) R(%r) (a half turn) gives the angle %r' % (sg * a, sg * b, sg * c, got), dict(a=a, b=b, sg=sg))
    run.notes['half_turn_matrices'] = n


def half_turn_updates(run):
    """Updates whose rotational part is (in floating point) a UNIT vector -- a half-turn step, the border of the boxplus domain: the sum of
    squares may round to 1 +- ulp while the norm rounds to exactly 1.0.  The result must be a finite unit quaternion."""
    import random
    rnd = random.Random(run.seed + 611)
    n = 0
    for j in range(600):
        u = np.array([rnd.gauss(0, 1) for _ in range(3)])
        u = u / np.linalg.norm(u)
        if j % 3 == 1:
            u = np.array([[0.6, 0.8, 0.0], [0.0, -1.0, 0.0], [2.0 / 3.0, -1.0 / 3.0, 2.0 / 3.0], [1.0 / 3.0, 2.0 / 3.0, 2.0 / 3.0]][(j // 3) % 4])
        q = np.array([rnd.gauss(0, 1) for _ in range(4)])
        p = PoseSE3([1.0, 2.0, 3.0], q / np.linalg.norm(q))
        for form in ('+', '+='):
            if form == '+':
                r = p + np.concatenate([[0.5, -0.25, 0.125], u])
            else:
                r = p.copy()
                r += np.concatenate([[0.5, -0.25, 0.125], u])
            qq = np.asarray(r, dtype=float)[3:]
            n += 1
            run.count(key=('half-turn-update', j, form), nontrivial=True)
            if not np.all(np.isfinite(qq)) or abs(float(np.linalg.norm(qq)) - 1.0) > 16 * EPS:
                run.violation(dict(part='half-turn-update', form=form), 'pose %s increment with the unit rotational part %r gives the quaternion %r' % (form, u.tolist(), qq.tolist()),
                              dict(u=u.tolist(), q=np.asarray(p).tolist()))
    run.notes['half_turn_updates'] = n


def text_round_trip(run):
    """Vertex.to_g2o -> Vertex.from_g2o (what a reload of a saved graph does to every vertex): the re-read pose keeps the invariant to the
    same accuracy as the written one (unit quaternion within 8 eps, heading in [-pi, pi])."""
    import random
    from graphslam.vertex import Vertex
    rnd = random.Random(run.seed + 612)
    n = 0
    for j in range(300):
        q = np.array([rnd.gauss(0, 1) for _ in range(4)])
        v3 = Vertex(j, PoseSE3([rnd.uniform(-50, 50) for _ in range(3)], q / np.linalg.norm(q)))
        v2 = Vertex(j, PoseSE2([rnd.uniform(-50, 50), rnd.uniform(-50, 50)], rnd.choice([rnd.uniform(-math.pi, math.pi), math.pi, -math.pi, math.nextafter(math.pi, 0), 3.0 + j])))
        for v in (v2, v3):
            try:
                w = Vertex.from_g2o(v.to_g2o())
            except Exception as ex:  # noqa
                run.violation(dict(part='text-round-trip', outcome='raised'), 'Vertex.from_g2o(Vertex.to_g2o()) raised %r for %r' % (ex, np.asarray(v.pose).tolist()), dict(pose=np.asarray(v.pose).tolist()))
                continue
            n += 1
            arr = np.asarray(w.pose, dtype=float)
            ok = (abs(float(np.linalg.norm(arr[3:])) - 1.0) <= 8 * EPS) if len(arr) == 7 else (-math.pi <= arr[2] <= math.pi and abs(math.remainder(arr[2] - float(v.pose[2]), 2 * math.pi)) <= 8 * EPS)
            run.count(key=('text-round-trip', j, len(arr)), nontrivial=True)
            if not ok:
                run.violation(dict(part='text-round-trip', kind='SE3' if len(arr) == 7 else 'SE2'), 'vertex written and re-read: %r -> %r (|q|-1 = %.3g)' % (
                    np.asarray(v.pose).tolist(), arr.tolist(), float(np.linalg.norm(arr[3:])) - 1.0 if len(arr) == 7 else 0.0), dict(pose=np.asarray(v.pose).tolist()))
    run.notes['vertex_text_round_trips'] = n


def check(run):
    thorough = run.tier == 'thorough'
    apalache_lemma(run)
    half_turn_updates(run)
    half_turn_matrices(run)
    text_round_trip(run)
    wrap_conformance(run)
    chains(run, 'SE2', 16 if thorough else 8, 10001 if thorough else 401)
    chains(run, 'SE3', 16 if thorough else 8, 10001 if thorough else 401)
    optimizer_runs(run, thorough)
    normalize_cases(run)
    run.rule = ('(i) Apalache: wrap lemma for all integers; (ii) neg_pi_to_pi / constructor / inverse / composition / difference / update at and around every wrap boundary '
                'and at random angles up to 1e6 rad against the lemma; (iii) TLC -simulate on PoseChain: chains of %d operations inside closed lattice groups (exact '
                'forever), replayed after every action on real poses and on a conjugated copy (rounding exercised): exact value, angle range, | |q| - 1 | <= '
                '8 eps (n+1); (iv) 1..%d single optimizer iterations with the same monitors; (v) normalize() on rational-norm quaternions against the exact result') % (
                    10000 if thorough else 400, 50 if thorough else 20)
    run.assumptions = ['the rounding-drift bound on |q| is a monitor on observed executions along TLC-generated operation sequences (DESIGN.md L3)']


def replay(run, rep):
    check(run)
