"""C07: chi^2 and the optimisation trajectory are independent of the world frame (theorem T5 on the model + two-run lock-step)."""
import contextlib
import copy
import io
import math
import random

import numpy as np

from graphslam.graph import Graph
from graphslam.vertex import Vertex

from .. import build as B
from .. import edgecases as EC
from .. import graphcases as GC
from .. import graphs
from . import c03


def gen(tier, seed):
    rnd = random.Random(seed * 613 + 11)
    thorough = tier == 'thorough'
    cases = []
    for kind in ('SE2', 'SE3', 'R2', 'R3'):
        for n_poses in (2, 3, 4):
            for _ in range(30 if thorough else 2):
                c = GC.gen_graph(rnd, kind, n_poses, rnd.choice([0, 1, 2]), rnd.choice([0, 1]), custom=False, fixed_mode=rnd.choice(['first', 'some']), fix_first=True)
                TT = (EC.T2 + EC.T2L) if B.DIM[kind] == 2 else (EC.T3 + EC.T3L)
                if kind == 'SE2':
                    rots = B.C4 + B.PY5 + [(-399, 40, 401), (-399, -40, 401)] if rnd.random() < 0.3 else B.C4 + B.PY5
                    T = dict(k='SE2', t=list(rnd.choice(TT)), r=list(rnd.choice(rots)))
                elif kind == 'SE3':
                    T = dict(k='SE3', t=list(rnd.choice(TT)), r=list(rnd.choice(B.HURWITZ + (B.Q3[:8] if rnd.random() < 0.3 else []))))
                else:
                    T = dict(k=kind, t=list(rnd.choice(TT)), r=[])
                c['T'] = T
                if rnd.random() < 0.25:
                    c = GC.far_vertex(c, rnd)          # a badly initialised point: steps of several thousand units
                cases.append(c)
    return [c for c in cases if GC.components_fixed(c)]


def build_moved(case, mverts):
    """Real graph whose vertices are the exact left-composed poses computed by the specification."""
    def b(c, idmap=None):
        g0 = GC.build_graph(c, idmap)
        vs = []
        for v0, mv in zip(g0._vertices, mverts):
            t = [q[0] / q[1] for q in mv['tq']]
            r = [q[0] / q[1] for q in mv['rq']]
            k = mv['k']
            if k == 'SE2':
                p = B.CLS_OF[k](t, math.atan2(r[1], r[0]))
            elif k == 'SE3':
                p = B.CLS_OF[k](t, r)
            else:
                p = B.CLS_OF[k](t)
            vs.append(Vertex(v0.id, p, fixed=v0.fixed))
        for e in g0._edges:
            e.vertices = None
        return Graph(g0._edges, vs)
    return b


def hclass(c):
    return c03.hclass(c) + ((c['T']['r'][-1] if c.get('T') and c['T']['r'] else 0), max(abs(x) for x in c['T']['t']) > 20 if c.get('T') else False)


def apply_T(T, g):
    """Left-compose every vertex of a real graph with the real pose T (library operators)."""
    for v in g._vertices:
        v.pose = T + v.pose
    return g


def lockstep(run, rnd, thorough):
    """Two runs of the code: optimize(tol=0, max_iter=k) on g and on T*g, k = 1..5, T generic with large translations."""
    n = 0
    # (..c: with user-defined edges on numerical Jacobians; ..f: started FAR from the optimum, so that chi^2 rises along the way -- un-damped
    #  Gauss-Newton is frame independent wherever it goes)
    #  ..n: NON-symmetric information matrices on the landmark edges ("any information": frame independence does not need symmetry)
    for name in ('se2', 'se3', 'r2', 'r3', 'se2b', 'se3b', 'se2c', 'r2c', 'se3c', 'se2f', 'se3f', 'se2n', 'se3n'):
        for rep in range(6 if thorough else 2):
            seed = rnd.randrange(10 ** 6)
            kind = {'se2': 'SE2', 'se3': 'SE3', 'r2': 'R2', 'r3': 'R3', 'se2b': 'SE2', 'se3b': 'SE3', 'se2c': 'SE2', 'r2c': 'R2', 'se3c': 'SE3', 'se2f': 'SE2', 'se3f': 'SE3', 'se2n': 'SE2', 'se3n': 'SE3'}[name]
            far = name.endswith('f')
            es, vs, _ = graphs.make(kind, seed, custom=name.endswith('c'), n_landmarks=2, n_poses=(8 if name.endswith('b') else 5), closures=3, noise=0.05 if rep % 2 else 0.0,
                                    dt=(2.5 if far else 0.2), dr=(1.5 if far else 0.1), cross=True)
            if name.endswith('n'):
                for e in es:
                    if hasattr(e, 'offset'):
                        n_ = e.information.shape[0]
                        e.information = e.information + 0.75 * np.triu(np.ones((n_, n_)), 1)
            # (of the user-defined edges only those that measure something relative are frame independent: range and relative pose)
            es = [e for e in es if not isinstance(e, (graphs.PriorEdge, graphs.MidpointEdge))]
            mag = rnd.choice([1.0, 1e3, 1e6]) if not name.endswith('c') else [3e3, 1e3, 1.0][rep % 3]
            if far:
                mag = 10.0
            if kind == 'SE2':
                T = B.CLS_OF[kind]([rnd.uniform(-mag, mag), rnd.uniform(-mag, mag)], rnd.choice([rnd.uniform(-3.1, 3.1), math.pi - 1e-3, -math.pi + 1e-3, 3.0]))
            elif kind == 'SE3':
                ang = rnd.choice([rnd.uniform(0, 3.1), math.pi - 1e-3, 3.0])
                ax = np.array([rnd.gauss(0, 1) for _ in range(3)])
                ax /= np.linalg.norm(ax)
                T = B.CLS_OF[kind]([rnd.uniform(-mag, mag) for _ in range(3)], list(ax * math.sin(ang / 2)) + [math.cos(ang / 2)])
            else:
                T = B.CLS_OF[kind]([rnd.uniform(-mag, mag) for _ in range(B.DIM[kind])])
            for k in range(1, 6):
                g1 = Graph(copy.deepcopy(es), copy.deepcopy(vs))
                g2 = apply_T(T, Graph(copy.deepcopy(es), copy.deepcopy(vs)))
                c1, c2 = g1.calc_chi2(), g2.calc_chi2()
                with contextlib.redirect_stdout(io.StringIO()):
                    r1 = g1.optimize(tol=0.0, max_iter=k, verbose=False)
                    r2 = g2.optimize(tol=0.0, max_iter=k, verbose=False)
                n += 1
                key = dict(part='lockstep', kind=kind, iterations=k)
                amp = 1.0 + mag / 1e3
                if abs(c1 - c2) > 1e-7 * amp * (1 + abs(c1)):
                    run.violation(dict(key, outcome='chi2'), 'chi2 of g %r vs chi2 of T*g %r (|t_T| ~ %g)' % (c1, c2, mag), dict(template=name, seed=seed, k=k))
                    break
                bad = None
                if r1.num_iterations != r2.num_iterations or len(r1.iteration_results) != len(r2.iteration_results):
                    bad = 'report shapes differ'
                elif abs(r1.final_chi2 - r2.final_chi2) > 1e-6 * amp * (1 + abs(r1.final_chi2)):
                    bad = 'final chi2 %r vs %r' % (r1.final_chi2, r2.final_chi2)
                else:
                    for v1, v2 in zip(g1._vertices, g2._vertices):
                        want = T + v1.pose
                        d = np.asarray(v2.pose, dtype=float) - np.asarray(want, dtype=float)
                        nd = B.DIM[B.KIND_OF[type(v1.pose)]]
                        dt = float(np.max(np.abs(d[:nd])))
                        if isinstance(v1.pose, B.CLS_OF['SE3']):
                            dr = min(float(np.max(np.abs(d[3:]))), float(np.max(np.abs(np.asarray(v2.pose)[3:] + np.asarray(want)[3:]))))
                        elif isinstance(v1.pose, B.CLS_OF['SE2']):
                            dr = abs((d[2] + math.pi) % (2 * math.pi) - math.pi)
                        else:
                            dr = 0.0
                        run.dev(max(dt / (1 + mag), dr) / amp * 1e-3)
                        if far:
                            run.notes['lockstep_far_max_dev'] = [max(a, b) for a, b in zip(run.notes.get('lockstep_far_max_dev', [0.0, 0.0]), [dt / (1 + mag), dr])]
                        if name.endswith('c'):
                            run.notes['lockstep_numerical_jacobians_max_dev'] = [max(a, b) for a, b in zip(run.notes.get('lockstep_numerical_jacobians_max_dev', [0.0, 0.0]), [dt / (1 + mag), dr])]
                        # (numerical Jacobians, |t_T| <= 3e3: the frame enters through rounding of the forward difference only, ~1e-16*|t_T|/1e-6 in
                        #  the Jacobian; the unchanged tree stays below 5e-9 in rotation over all seeds tried, the bound leaves a factor of 10)
                        dr_tol = 5e-8 if name.endswith('c') else 1e-7 * amp
                        if dt > 1e-7 * amp * (1 + mag) * 1e-1 or dr > dr_tol:
                            bad = 'vertex %r after %d iterations: T*x_k and x\'_k differ by %.3g (translation) %.3g (rotation), |t_T| ~ %g' % (v1.id, k, dt, dr, mag)
                            break
                if bad:
                    run.violation(dict(key, outcome='trajectory'), bad, dict(template=name, seed=seed, k=k, T=np.asarray(T).tolist()))
                    break
    return n


def check(run, cases=None):
    cases = cases if cases is not None else gen(run.tier, run.seed)
    old = EC.headroom_class
    K = max(GC.needed_K(c) for c in cases)
    EC.headroom_class = hclass
    try:
        pairs = EC.evaluate([dict(c, conv='canon') for c in cases], K, 'MC_C07', run, spec='MC_Assembly', invariants=('Symmetric', 'FrameInvariant'), max_retry=80)
    finally:
        EC.headroom_class = old
    for c, obs in pairs:
        run.replayed += 1
        base = dict(obs['base'], conv='canon')
        moved = dict(obs['moved'], conv='canon')
        key = dict(part='model-conformance', kind=c['T']['k'])
        cc = {k: v for k, v in c.items() if k not in ('T', 'conv')}
        r1 = c03.step_compare(run, cc, [base], dict(key, frame='original'))
        big = max(abs(x) for x in c['T']['t'])
        r2 = c03.step_compare(run, cc, [moved], dict(key, frame='moved'), builder=build_moved(cc, obs['mverts']), tol_scale=1.0 + big)
        # the two exact steps are related by the block-diagonal change of coordinates P (identity on poses, R_T on points): checked exactly by TLC
        # on H and b (invariant FrameInvariant); here the consequence dx' = P dx is re-checked on the solved steps
        if r1 is not None and r2 is not None:
            P = np.array([[q[0] / q[1] for q in row] for row in obs['P']])
            d1, _ = GC.exact_step(base)
            d2, _ = GC.exact_step(moved)
            if d1 is not None and d2 is not None and len(d1) and float(np.max(np.abs(P @ d1 - d2))) > 1e-9 * (1 + float(np.max(np.abs(d1)))):
                raise RuntimeError('model inconsistency: dx(T*g) != P dx(g)')
        run.count(key=repr(c), nontrivial=r1 is not None and r2 is not None)
        if r1 is not None and run.replayed % 11 == 1:
            run.sample(dict(case=cc, T=c['T'], exact_step=[e.tolist() for e in r1[1]], moved_vertices=obs['mverts']))
    rnd = random.Random(run.seed + 77)
    n = lockstep(run, rnd, run.tier == 'thorough')
    run.notes['lockstep_run_pairs'] = n
    run.replayed += n
    run.rule = ('(i) theorem T5 checked by TLC on every generated (graph, T): errors, chi^2 forms, b and H of T*g equal those of g exactly; (ii) the code at g and at '
                'T*g (vertices = exact left-composed poses from the specification) both conform to that one exact step; (iii) code-vs-code lock-step for k=1..5 '
                'iterations with generic float T (|t| up to 1e6, rotations near 180 degrees); non-trivial = lattice case with both frames compared')
    run.assumptions = ['beyond the first step the comparison is code-vs-code (DESIGN.md L2)', 'T applied to real graphs with the library\'s own (+) (decided by C09)']


def replay(run, rep):
    check(run)
