"""Running TLC: one call = one model-checking or simulation run in a scratch directory."""
import glob
import os
import re
import shutil
import subprocess
import tempfile
import time

SPEC_DIR = os.path.join(os.path.dirname(os.path.dirname(os.path.abspath(__file__))), 'spec')
JAR = '/opt/veriftools/tla/tla2tools.jar:/opt/veriftools/tla/CommunityModules-deps.jar'


class TLCError(Exception):
    """Machinery failure (not a property verdict)."""


class TLCResult:
    def __init__(self):
        self.generated = 0
        self.distinct = 0
        self.depth = 0
        self.out = ''
        self.dump = None
        self.dir = None
        self.violation = None   # name of violated invariant / property, if any
        self.coverage = {}
        self.wall = 0.0
        self.printed = []

    def cleanup(self):
        if self.dir and os.path.isdir(self.dir):
            shutil.rmtree(self.dir, ignore_errors=True)


def scratch(prefix='verif-'):
    return tempfile.mkdtemp(prefix=prefix)


def run(module, cfg, mc_text=None, workers=16, dump=False, simulate=None, depth=None, seed=None,
        timeout=1800, coverage=False, env_extra=None, extra_args=(), keep_dir=None, allow_violation=False,
        deadlock=False):
    """Run TLC on `module` (a module in spec/, or `mc_text` = source of a generated module of that name).

    cfg: text of the configuration file.  Returns TLCResult; raises TLCError on machinery failure.
    """
    d = keep_dir or scratch()
    for f in os.listdir(SPEC_DIR):
        if f.endswith('.tla'):
            shutil.copy(os.path.join(SPEC_DIR, f), os.path.join(d, f))
    if mc_text is not None:
        with open(os.path.join(d, module + '.tla'), 'w') as f:
            f.write(mc_text)
    with open(os.path.join(d, module + '.cfg'), 'w') as f:
        f.write(cfg)
    md = os.path.join(d, 'md')
    jtmp = os.path.join(d, 'jtmp')                   # (TLC / SANY unpack their standard modules into java.io.tmpdir: kept inside the scratch directory)
    os.makedirs(jtmp, exist_ok=True)
    cmd = ['java', '-Djava.io.tmpdir=' + jtmp, '-XX:+UseParallelGC', '-XX:ParallelGCThreads=4', '-Xss64m', '-Xmx8g', '-cp', JAR, 'tlc2.TLC',
           '-workers', str(workers), '-metadir', md, '-noGenerateSpecTE']
    if not deadlock:
        cmd += ['-deadlock']
    res = TLCResult()
    res.dir = d
    if simulate is not None:
        sim = 'num=%d' % simulate
        if dump:
            os.makedirs(os.path.join(d, 'sim'), exist_ok=True)
            sim = 'file=%s,%s' % (os.path.join(d, 'sim', 'tr'), sim)
        cmd += ['-simulate', sim]
        if depth:
            cmd += ['-depth', str(depth)]
    elif dump:
        res.dump = os.path.join(d, 'states')
        cmd += ['-dump', res.dump]
        res.dump += '.dump'
    if seed is not None:
        cmd += ['-seed', str(seed)]
    if coverage:
        cmd += ['-coverage', '1']
    cmd += list(extra_args)
    cmd += [module + '.tla']
    env = dict(os.environ)
    env.pop('JAVA_TOOL_OPTIONS', None)
    if env_extra:
        env.update(env_extra)
    t0 = time.time()
    proc = subprocess.Popen(cmd, cwd=d, env=env, stdout=subprocess.PIPE, stderr=subprocess.STDOUT)
    chunks = []
    fatal = []

    def reader():
        for raw in proc.stdout:
            line = raw.decode('utf-8', 'replace')
            chunks.append(line)
            if 'Overflow when computing' in line or line.startswith('Error: Overflow') or 'unexpected exception' in line or 'Exception in thread' in line or 'StackOverflowError' in line or 'OutOfMemoryError' in line:
                fatal.append(line.strip())
    import threading
    th = threading.Thread(target=reader, daemon=True)
    th.start()
    while proc.poll() is None:
        if fatal:
            time.sleep(1.5)      # let TLC print the context of the error
            proc.kill()
            break
        if time.time() - t0 > timeout:
            proc.kill()
            th.join(5)
            raise TLCError('TLC timeout after %ss on %s' % (timeout, module))
        time.sleep(0.05)
    proc.wait()
    th.join(10)

    class _P:
        stdout = ''.join(chunks).encode()
    p = _P()
    res.wall = time.time() - t0
    out = p.stdout.decode('utf-8', 'replace')
    res.out = out
    m = re.search(r'(\d[\d,]*) states generated, (\d[\d,]*) distinct states found', out)
    if m:
        res.generated = int(m.group(1).replace(',', ''))
        res.distinct = int(m.group(2).replace(',', ''))
    m = re.search(r'depth of the complete state graph search is (\d+)', out)
    if m:
        res.depth = int(m.group(1))
    if simulate is not None:
        m = re.search(r'(\d[\d,]*) states checked', out)
        if m:
            res.generated = res.distinct = int(m.group(1).replace(',', ''))
    for bad in ('Overflow', 'Exception in thread', 'StackOverflowError', 'OutOfMemoryError', 'Parsing or semantic analysis failed',
                'TLC threw an unexpected exception', 'was not found', 'Unknown operator'):
        if bad in out:
            raise TLCError('TLC machinery failure (%s) on %s:\n%s' % (bad, module, out[max(0, out.find('Error:')):][:2500]))
    m = re.search(r'Error: Invariant (\S+) is violated', out) or re.search(r'Error: Action property (\S+) is violated', out) \
        or re.search(r'Error: Temporal properties were violated', out) or re.search(r'Error: Deadlock reached', out) \
        or re.search(r'Error: The postcondition (\S+)? ?is violated', out) or re.search(r'Error: Assumption .* is false', out)
    if m:
        res.violation = m.group(1) if m.groups() and m.group(1) else m.group(0)
    elif 'Error:' in out and 'No error has been found' not in out:
        raise TLCError('TLC reported an error on %s:\n%s' % (module, out[-3000:]))
    if res.violation and not allow_violation:
        pass
    if coverage:
        res.coverage = parse_coverage(out)
    res.printed = re.findall(r'^(<<.*>>|".*")$', out, re.M)
    return res


_COV = re.compile(r'^<(\w+) line (\d+), col (\d+) to line (\d+), col (\d+) of module (\w+)>: (\d+):(\d+)', re.M)


def parse_coverage(out):
    cov = {}
    for m in _COV.finditer(out):
        name = '%s!%s' % (m.group(6), m.group(1))
        cov[name] = cov.get(name, 0) + int(m.group(8))
    return cov


def sany(path):
    p = subprocess.run(['java', '-Djava.io.tmpdir=' + os.path.dirname(path), '-cp', JAR, 'tla2sany.SANY', os.path.basename(path)], cwd=os.path.dirname(path),
                       stdout=subprocess.PIPE, stderr=subprocess.STDOUT)
    out = p.stdout.decode()
    return ('Semantic errors' not in out and 'Parse Error' not in out and 'Fatal' not in out and p.returncode == 0), out


def tlapm(module, timeout=900):
    """Check the proofs of spec/proofs/<module>.tla with the TLA+ proof system; returns {'obligations_proved': n}.  Raises TLCError unless
    every obligation is proved."""
    d = scratch('verif-tlaps-')
    try:
        for f in glob.glob(os.path.join(SPEC_DIR, '*.tla')) + glob.glob(os.path.join(SPEC_DIR, 'proofs', '*.tla')):
            shutil.copy(f, d)
        try:
            p = subprocess.run(['tlapm', '--cleanfp', module + '.tla'], cwd=d, stdout=subprocess.PIPE, stderr=subprocess.STDOUT, text=True, timeout=timeout)
        except subprocess.TimeoutExpired:
            raise TLCError('tlapm timed out on %s' % module)
        m = re.search(r'All (\d+) obligations? proved', p.stdout)
        if p.returncode != 0 or not m:
            raise TLCError('tlapm: not every obligation of %s was proved:\n%s' % (module, '\n'.join(l for l in p.stdout.splitlines() if not l.startswith(('Called from', 'Raised')))[-2000:]))
        return {'module': module, 'obligations_proved': int(m.group(1))}
    finally:
        shutil.rmtree(d, ignore_errors=True)
