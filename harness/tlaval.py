"""Parser for TLA+ values as printed by TLC (state dumps, simulation files, PrintT output)."""
import re
from fractions import Fraction

_TOK = re.compile(r'\s*(<<|>>|\|->|:>|@@|\[|\]|\{|\}|\(|\)|,|-?\d+|"(?:[^"\\]|\\.)*"|[A-Za-z_][A-Za-z0-9_]*)')


def tokenize(s):
    pos, out, n = 0, [], len(s)
    while True:
        m = _TOK.match(s, pos)
        if not m:
            if s[pos:].strip():
                raise ValueError("bad token at %r" % s[pos:pos + 40])
            return out
        out.append(m.group(1))
        pos = m.end()
        if pos >= n:
            return out


def parse(s):
    toks = tokenize(s)
    v, i = _val(toks, 0)
    if i != len(toks):
        raise ValueError("trailing tokens %r" % toks[i:i + 5])
    return v


def _hashable(k):
    if isinstance(k, list):
        return tuple(_hashable(x) for x in k)
    return k


def _val(t, i):
    x = t[i]
    if x == '<<':
        i += 1
        items = []
        while t[i] != '>>':
            v, i = _val(t, i)
            items.append(v)
            if t[i] == ',':
                i += 1
        return items, i + 1
    if x == '{':
        i += 1
        items = []
        while t[i] != '}':
            v, i = _val(t, i)
            items.append(v)
            if t[i] == ',':
                i += 1
        return ('set', items), i + 1
    if x == '[':
        i += 1
        d = {}
        while t[i] != ']':
            k = t[i]
            if t[i + 1] != '|->':
                raise ValueError("expected |-> near %r" % t[i:i + 4])
            v, i = _val(t, i + 2)
            d[k] = v
            if t[i] == ',':
                i += 1
        return d, i + 1
    if x == '(':  # function printed as (k :> v @@ k :> v)
        i += 1
        d = {}
        while t[i] != ')':
            k, i = _val(t, i)
            if t[i] != ':>':
                raise ValueError("expected :> near %r" % t[i:i + 4])
            v, i = _val(t, i + 1)
            d[_hashable(k)] = v
            if t[i] == '@@':
                i += 1
        # a function with domain 1..n is a sequence
        if d and all(isinstance(k, int) for k in d) and sorted(d) == list(range(1, len(d) + 1)):
            return [d[k] for k in range(1, len(d) + 1)], i + 1
        return d, i + 1
    if x[0] == '"':
        return x[1:-1].replace('\\"', '"').replace('\\\\', '\\'), i + 1
    if x == 'TRUE':
        return True, i + 1
    if x == 'FALSE':
        return False, i + 1
    if x[0] == '-' or x[0].isdigit():
        return int(x), i + 1
    return ('id', x), i + 1  # model value / identifier


_STATE = re.compile(r'^State (\d+):\s*$', re.M)
_VAR = re.compile(r'^/\\ ([A-Za-z_][A-Za-z0-9_]*) = ', re.M)


def parse_state_text(block):
    """block: text '/\\ v1 = ...\n/\\ v2 = ...' -> dict"""
    out = {}
    ms = list(_VAR.finditer(block))
    for j, m in enumerate(ms):
        end = ms[j + 1].start() if j + 1 < len(ms) else len(block)
        out[m.group(1)] = parse(block[m.end():end])
    return out


def iter_dump(path):
    """Yield state dicts from a TLC -dump file."""
    with open(path) as f:
        text = f.read()
    ms = list(_STATE.finditer(text))
    for j, m in enumerate(ms):
        end = ms[j + 1].start() if j + 1 < len(ms) else len(text)
        yield parse_state_text(text[m.end():end])


_SIMSTATE = re.compile(r'^STATE_(\d+) ==\s*$', re.M)
_ACTION = re.compile(r'^\\\* <?([A-Za-z_0-9]+)')


def parse_sim_file(path):
    """Parse one behaviour file written by `tlc -simulate file=...`: list of (action_name, state_dict)."""
    with open(path) as f:
        text = f.read()
    out = []
    ms = list(_SIMSTATE.finditer(text))
    for j, m in enumerate(ms):
        end = ms[j + 1].start() if j + 1 < len(ms) else len(text)
        block = text[m.end():end]
        # the comment line naming the action precedes "STATE_n ==" of the same state
        pre = text[(ms[j - 1].end() if j else 0):m.start()]
        act = None
        for line in pre.splitlines():
            mm = _ACTION.match(line.strip())
            if mm:
                act = mm.group(1)
        # cut trailing comment lines / separators from the block
        lines = []
        for line in block.splitlines():
            if line.startswith('\\*') or line.startswith('====') or line.startswith('----'):
                break
            lines.append(line)
        out.append((act, parse_state_text('\n'.join(lines))))
    return out


def frac(q):
    """<<n,d>> -> Fraction"""
    return Fraction(q[0], q[1])


def fvec(v):
    return [Fraction(q[0], q[1]) for q in v]


def fmat(m):
    return [[Fraction(q[0], q[1]) for q in row] for row in m]
