"""C13 / C14: abstract graphs and abstract files for the G2O specification, with symbol tables binding them to float64 values."""
import math
import random
import struct

import numpy as np

from graphslam.edge.base_edge import BaseEdge
from graphslam.edge.edge_landmark import EdgeLandmark
from graphslam.edge.edge_odometry import EdgeOdometry
from graphslam.g2o_parameters import G2OParameterSE2Offset, G2OParameterSE3Offset
from graphslam.graph import Graph
from graphslam.pose.r2 import PoseR2
from graphslam.pose.r3 import PoseR3
from graphslam.pose.se2 import PoseSE2
from graphslam.pose.se3 import PoseSE3
from graphslam.vertex import Vertex

from . import build as B
from . import graphs as G

EXTREME = [1e-300, -1e-300, 1e300, -1e300, 5e-324, 2.2250738585072014e-308, -0.0, 0.1, 1.0 / 3.0, 2.0 ** 53, -(2.0 ** 53) - 2, 123456789.0, 1e-17, 0.30000000000000004,
           1e22, 1e16, 9007199254740993.0, 6.02214076e23, -273.15, 1e-7]
IDS = [0, 1, 2, 3, 7, -1, -42, 99999, 2 ** 31, 2 ** 40 + 5, -2 ** 35, 123456789012, 2 ** 53 + 1, 2 ** 62 + 3, (ord('x') << 56) | 7, -2 ** 60 - 1]


def bits(x):
    return struct.pack('<d', float(x))


def rnd_val(rnd, extreme):
    if extreme and rnd.random() < 0.5:
        return rnd.choice(EXTREME)
    return rnd.choice([rnd.uniform(-10, 10), rnd.gauss(0, 1) * 10 ** rnd.randint(-8, 8), float(rnd.randint(-5, 5)), rnd.random()])


def rnd_quat(rnd):
    q = np.array([rnd.gauss(0, 1) for _ in range(4)])
    q /= np.linalg.norm(q)
    if rnd.random() < 0.2:
        q = np.array(rnd.choice([[0, 0, 0, -1.0], [1.0, 0, 0, 0], [0.5, -0.5, 0.5, -0.5], [0, 0, 0.6, -0.8]]))
    return list(q)


def rnd_pose(kind, rnd, extreme):
    if kind == 'SE2':
        return PoseSE2([rnd_val(rnd, extreme), rnd_val(rnd, extreme)], rnd.choice([rnd.uniform(-3.14, 3.14), 3.1, -3.1, 7.5, -100.0, math.pi, 0.0]))
    if kind == 'SE3':
        return PoseSE3([rnd_val(rnd, extreme) for _ in range(3)], rnd_quat(rnd))
    return B.CLS_OF[kind]([rnd_val(rnd, extreme) for _ in range(B.DIM[kind])])


def rnd_info(n, rnd, extreme):
    a = np.array([[rnd_val(rnd, False) for _ in range(n)] for _ in range(n)])
    m = a + a.T
    if extreme:
        i, j = rnd.randrange(n), rnd.randrange(n)
        m[i, j] = m[j, i] = rnd.choice(EXTREME)
    return m


def gen_real_graph(rnd, extreme=True, inexpressible=None):
    """A random real graph (not necessarily a sensible estimation problem: export/import does not care), plus its offset-parameter registry."""
    dim3 = rnd.random() < 0.5
    pk, lk = ('SE3', 'R3') if dim3 else ('SE2', 'R2')
    ids = rnd.sample(IDS, rnd.randint(3, 6))
    n_pose = rnd.randint(2, len(ids) - 1)
    verts = [Vertex(i, rnd_pose(pk if j < n_pose else lk, rnd, extreme)) for j, i in enumerate(ids)]
    rnd.shuffle(verts)
    poses = [v for v in verts if B.KIND_OF[type(v.pose)] == pk]
    lms = [v for v in verts if B.KIND_OF[type(v.pose)] == lk]
    edges, params = [], {}
    for _ in range(rnd.randint(1, 4)):
        a, b = rnd.sample(poses, 2)
        z = rnd_pose(pk, rnd, extreme)
        edges.append(EdgeOdometry([a.id, b.id], rnd_info(B.CDIM[pk], rnd, extreme), z))
    offids = rnd.sample([0, 1, 5, 17, -3], 2)
    if dim3:
        for oid in offids:
            key = ('PARAMS_SE3OFFSET', oid)
            params[key] = G2OParameterSE3Offset(key, rnd_pose('SE3', rnd, extreme))
        if rnd.random() < 0.3:
            key = ('PARAMS_SE2OFFSET', 2)
            params[key] = G2OParameterSE2Offset(key, rnd_pose('SE2', rnd, extreme))
    elif rnd.random() < 0.5:
        # a stored (non-identity) SE(2) offset parameter, also under id 0 -- the id EDGE_SE2_XY edges carry although they have no offset field
        key = ('PARAMS_SE2OFFSET', rnd.choice([0, 0, 3]))
        params[key] = G2OParameterSE2Offset(key, rnd_pose('SE2', rnd, extreme))
    for l in lms:
        for a in rnd.sample(poses, rnd.randint(1, 2)):
            if dim3:
                oid = rnd.choice(offids)
                edges.append(EdgeLandmark([a.id, l.id], rnd_info(3, rnd, extreme), rnd_pose('R3', rnd, extreme), params[('PARAMS_SE3OFFSET', oid)].value, offset_id=oid))
            else:
                edges.append(EdgeLandmark([a.id, l.id], rnd_info(2, rnd, extreme), rnd_pose('R2', rnd, extreme), PoseSE2.identity(), offset_id=0))
    rnd.shuffle(edges)
    if inexpressible == 'rn_odometry':
        a, b = (lms + lms)[:2] if len(lms) >= 2 else (None, None)
        if a is None or a is b:
            extra = Vertex(424242, rnd_pose(lk, rnd, False))
            verts.append(extra)
            a, b = lms[0], extra
        edges.insert(rnd.randrange(len(edges) + 1), EdgeOdometry([a.id, b.id], rnd_info(B.CDIM[lk], rnd, False), rnd_pose(lk, rnd, False)))
    elif inexpressible == 'rn_landmark':
        extra = Vertex(424243, rnd_pose(lk, rnd, False))
        verts.append(extra)
        edges.append(EdgeLandmark([lms[0].id, extra.id], rnd_info(B.CDIM[lk], rnd, False), rnd_pose(lk, rnd, False), rnd_pose(lk, rnd, False), offset_id=0))
    elif inexpressible == 'se2_offset':
        if dim3:
            return gen_real_graph(rnd, extreme, inexpressible)
        off = rnd.choice([PoseSE2([0.5, 0.0], 0.0), PoseSE2([0.0, 0.0], 0.3), PoseSE2([1.0, -2.0], -1.2), PoseSE2([0.0, 1e-12], 0.0),
                          PoseSE2([3e-13, -4e-13], 0.0), PoseSE2([0.0, 0.0], 1e-15), PoseSE2([5e-324, 0.0], 0.0), PoseSE2([0.0, -1e-300], 0.0)])      # (any non-zero offset, however tiny)
        edges.append(EdgeLandmark([poses[0].id, lms[0].id], rnd_info(2, rnd, False), rnd_pose('R2', rnd, False), off, offset_id=0))
    g = Graph(edges, verts)
    g._g2o_params = params
    if inexpressible == 'no_offset_id':
        # an SE(3) landmark edge created without an offset id (the argument is optional) and with an offset of its own, in a graph whose
        # registry does have entries (also under id 0): the file has no way to say which parameter the edge means
        if not dim3 or not poses or not lms:
            return gen_real_graph(rnd, extreme, inexpressible)
        key0 = ('PARAMS_SE3OFFSET', 0)
        if key0 not in params:
            params[key0] = G2OParameterSE3Offset(key0, rnd_pose('SE3', rnd, False))
            g._g2o_params = params
        extra = EdgeLandmark([poses[0].id, lms[0].id], rnd_info(3, rnd, False), rnd_pose('R3', rnd, False), rnd_pose('SE3', rnd, False))
        g = Graph(list(g._edges) + [extra], list(g._vertices))
        g._g2o_params = params
        return g
    if inexpressible == 'no_registry':
        # a graph assembled directly from objects: SE(3) landmark edges carry offsets, but no offset parameter was ever registered
        if not dim3 or not any(type(e) is EdgeLandmark for e in edges):
            return gen_real_graph(rnd, extreme, inexpressible)
        g._g2o_params = rnd.choice([None, {}])
    return g


class SymTab:
    """Symbol table: float64 bit patterns <-> small integers (0 is 0.0, 1 is 1.0); ids likewise."""

    def __init__(self):
        self.vals = [0.0, 1.0]
        self.ids = []
        self._idx = {}

    def num(self, x):
        x = float(x)
        if bits(x) == bits(0.0):
            return 0
        if bits(x) == bits(1.0):
            return 1
        key = bits(x)
        if key not in self._idx:
            self.vals.append(x)
            self._idx[key] = len(self.vals) - 1
        return self._idx[key]

    def nums(self, arr):
        return [self.num(x) for x in np.asarray(arr, dtype=float).reshape(-1)]

    def idsym(self, i):
        if i not in self.ids:
            self.ids.append(i)
        return self.ids.index(i)


def abstract(g, tab):
    """Project a real graph to the abstract graph of G2O.tla."""
    params = []
    for key, p in (g._g2o_params or {}).items():
        params.append({'tag': key[0], 'id': tab.idsym(key[1]), 'nums': tab.nums(p.value)})
    verts = [{'id': tab.idsym(v.id), 'kind': B.KIND_OF[type(v.pose)], 'nums': tab.nums(v.pose)} for v in g._vertices]
    edges = []
    for e in g._edges:
        k = B.KIND_OF[type(e.vertices[0].pose)]
        n = e.information.shape[0]
        info = [e.information[i, j] for i in range(n) for j in range(i, n)]
        if type(e) is EdgeOdometry:
            edges.append({'cls': 'odo', 'kind': k, 'vids': [tab.idsym(i) for i in e.vertex_ids], 'est': tab.nums(e.estimate), 'info': tab.nums(info), 'n': n,
                          'offid': -1, 'off': []})
        else:
            edges.append({'cls': 'lm', 'kind': k, 'vids': [tab.idsym(i) for i in e.vertex_ids], 'est': tab.nums(e.estimate), 'info': tab.nums(info), 'n': n,
                          'offid': tab.idsym(e.offset_id), 'off': tab.nums(e.offset)})
    return {'params': params, 'verts': verts, 'edges': edges}


def tokenize_file(path):
    with open(path, newline='') as f:
        return [ln.split() for ln in f.read().split('\n') if ln != '']


# ---------- custom edge types for the reader ----------
class DistEdgeA(G.RangeEdge):
    TAG = 'EDGE_DIST_A'

    def to_g2o(self):
        return '%s %d %d %r %r\n' % (self.TAG, self.vertex_ids[0], self.vertex_ids[1], float(self.estimate), float(self.information[0, 0]))

    @classmethod
    def from_g2o(cls, line, g2o_params_or_none=None):
        if line.startswith(cls.TAG + ' '):
            t = line.split()
            return cls([int(t[1]), int(t[2])], np.array([[float(t[4])]]), float(t[3]))
        return None


class DistEdgeB(DistEdgeA):
    TAG = 'EDGE_DIST_B'


class ShadowSE2(DistEdgeA):
    """A registered custom type that claims a BUILT-IN tag: registered custom types are consulted before the built-in edge readers."""
    TAG = 'EDGE_SE2'


JUNK = ['# PARAMS_SE2OFFSET 0 9 9 0.75', 'x VERTEX_SE2 1 0 0 0', '# EDGE_SE2 1 2 0 0 0 1 0 0 1 0 1', 'NOTE PARAMS_SE3OFFSET 0 0 0 0 0 0 0 1', '#EDGE_SE2_XY 1 2 1 1 1 0 1',
        '# 100% synthetic, %d poses %s', 'NOTE 50%', '# a comment', 'FIX 0', ' VERTEX_XY 1 2.0 3.0', 'EDGE_SE2_XYZ 1 2 0 0 0 1 0 0 1 0 1', 'vertex_se2 1 0 0 0', 'VERTEX_SE2: 4 0 0 0', 'EDGE_SE3 1 2 0 0 0',
        'PARAMS_CAMERAPARAMETERS 0 1 2 3', 'VERTEXSE2 3 0 0 0', '\tVERTEX_SE3:QUAT 1 0 0 0 0 0 0 1', 'garbage', 'EDGE_SE2_XY_ 1 2 1 1 1 0 1']
BLANK = ['', '   ', ' ']


def spell(x, rnd):
    """A textual spelling of the float64 x that float() maps back to exactly x."""
    r = repr(float(x))
    forms = [r, '%.17g' % x, '%.16e' % x, '%.17E' % x]
    if x == x and x not in (float('inf'), float('-inf')):
        if float(x).is_integer() and abs(x) < 1e15:
            forms += [str(int(x)) if (x != 0 or math.copysign(1, x) > 0) else '-0', '%d.' % x if (x != 0 or math.copysign(1, x) > 0) else '-0.', '%de0' % x if (x != 0 or math.copysign(1, x) > 0) else '-0e0']
        if x >= 0 and math.copysign(1, x) > 0:
            forms += ['+' + r]
        if 0 < abs(x) < 1 and r.startswith(('0.', '-0.')) and 'e' not in r:
            forms += [r.replace('0.', '.', 1)]
    s = rnd.choice(forms)
    assert bits(float(s)) == bits(x), (s, x)
    return s
