"""Scenarios from the specification (tlc -simulate on MC_Scenario) -> sessions on real graphs -> trace validation by TLC."""
import contextlib
import glob
import io
import json
import os
import random
import re
import shutil

from graphslam.graph import Graph

from . import graphs, tlc, tlaval
from .core import library_debug_logging
from .record import Session

TOLS = {'0': 0.0, '1e-12': 1e-12, '1e-8': 1e-8, '1e-4': 1e-4, '1e-2': 1e-2, '1e-1': 1e-1, '0.5': 0.5}


def resolve_tol(g, a):
    """'0', '1e-4', ... are literal; 'stop:k' places the tolerance just above the relative decrease of iteration k of the
    trajectory from the current state (observed on a deep copy by single-iteration calls), so that every stop position occurs."""
    import contextlib
    import copy
    import io
    import numpy as np
    t = a['tol']
    if t in TOLS:
        return TOLS[t]
    k = int(t.split(':')[1])
    k = min(k, a['maxIter'])
    c = copy.deepcopy(g)
    chi = [float(c.calc_chi2())]
    for _ in range(k):
        with contextlib.redirect_stdout(io.StringIO()):
            c.optimize(tol=0.0, max_iter=1, fix_first_pose=a['fixFirst'], verbose=False)
        chi.append(float(c.calc_chi2()))
    rel = (chi[k - 1] - chi[k]) / (chi[k - 1] + np.finfo(float).eps)
    if not np.isfinite(rel) or rel <= 0:
        return 1e-9
    return rel * 1.000001


def template_sizes(names, seed):
    out = []
    for n in names:
        es, vs, _ = graphs.TEMPLATES[n](seed)
        out.append({'name': n, 'nv': len(vs), 'ne': len(es)})
    return out


def generate(run, names, seed, num, depth, max_iters=(1, 2, 3), tols=('0', '1e-4', '1e-1'), queries=None, workers=4, edits=False, faults=False):
    """Behaviours of MC_Scenario: list of (template name, [arg records])."""
    from .build import tla
    sizes = template_sizes(names, seed)
    qdef = ''
    mc = ('---- MODULE MC_Scn ----\nEXTENDS MC_Scenario\nTemplatesDef == %s\nMaxIterDef == %s\nTolDef == %s\nEditsDef == %s\nFaultsDef == %s\n====\n'
          % (tla(set()) if not sizes else '{' + ', '.join(tla(s) for s in sizes) + '}', tla(set(max_iters)), tla(set(tols)), 'TRUE' if edits else 'FALSE', 'TRUE' if faults else 'FALSE'))
    cfg = ('SPECIFICATION SSpec\nCONSTANTS\n Templates <- TemplatesDef\n MaxIterSet <- MaxIterDef\n TolSet <- TolDef\n Edits <- EditsDef\n Faults <- FaultsDef\n'
           'PROPERTY FixedFrozenS\nPROPERTY QueriesPure\nPROPERTY StructureFrozen\nPROPERTY FlagsRule\nPROPERTY PosesRule\n')
    per = max(1, (num + workers - 1) // workers)
    res = tlc.run('MC_Scn', cfg, mc_text=mc, simulate=per, depth=depth, seed=seed + 1, dump=True, workers=workers, timeout=1200)
    try:
        if res.violation:
            raise tlc.TLCError('scenario model violates %s' % res.violation)
        run.add_tlc(res, 'MC_Scenario (simulate)')
        behaviours = []
        for f in sorted(glob.glob(os.path.join(res.dir, 'sim', 'tr_*'))):
            states = tlaval.parse_sim_file(f)
            if not states:
                continue
            name = states[0][1]['tmpl']['name']
            behaviours.append((name, [st['arg'] for _, st in states[1:]]))
        return behaviours[:num]
    finally:
        res.cleanup()


class _Noise:
    """Activity on unrelated graphs between the recorded calls of a session."""

    def __init__(self, seed):
        self.rnd = random.Random(seed)
        self.g = None

    def step(self):
        r = self.rnd.random()
        if self.g is None or r < 0.3:
            name = self.rnd.choice(['r2', 'se2', 'se3', 'se2c', 'se2fix', 'mixed', 'r3fixlm'])
            es, vs, _ = graphs.TEMPLATES[name](self.rnd.randrange(1000))
            self.g = Graph(es, vs)
        try:
            with contextlib.redirect_stdout(io.StringIO()):
                if r < 0.6:
                    self.g.optimize(max_iter=self.rnd.randint(1, 3), tol=self.rnd.choice([0.0, 1e-4, 0.5]), fix_first_pose=self.rnd.random() < 0.7, verbose=self.rnd.random() < 0.5)
                else:
                    self.g.calc_chi2()
                    self.g._vertices[-1].fixed = not self.g._vertices[-1].fixed
        except Exception:  # noqa  (whatever happens to the unrelated graph is not the subject)
            self.g = None


def play(behaviours, seed, sink, twin_every=2, split_fn=None):
    """Step real graphs along the behaviours; events appended to sink; returns {sid: Session}."""
    sessions = {}
    for sid, (name, args) in enumerate(behaviours, start=1):
        es, vs, _ = graphs.TEMPLATES[name](seed)
        s = Session(sid, sink)
        s.template = name
        sessions[sid] = s
        if not s.construct(es, vs):
            continue
        if name.endswith(('reg', 'regc')):
            s.g._g2o_params = graphs.registry_for(es)
        # Interleaving dimension: between the recorded calls, an UNRELATED graph (other objects, other template) is built, queried and optimised.
        # None of it is recorded: a recorded graph's behaviour must not depend on what happens to other graphs (no class-level / module-level state).
        noise = _Noise(seed + sid) if sid % 2 == 0 else None
        counters = {'nopt': 0}
        for a in args:
            if noise:
                noise.step()
            with library_debug_logging(sid % 3 == 0):          # (every third session runs with the library's loggers at DEBUG level)
                _step(s, a, split_fn, sid, twin_every, counters)
    return sessions


def _step(s, a, split_fn, sid, twin_every, counters):
    if a['op'] == 'Query':
        s.query(a['q'], a['target'])
    elif a['op'] == 'SetFixed':
        s.set_fixed(a['idx'], a['flag'])
    elif a['op'] == 'Reload':
        s.reload()
    elif a['op'] == 'OptZero':
        s.optimize_zero(a['fixFirst'])
    elif a['op'] == 'OptAbort':
        s.optimize_abort(a['maxIter'], a['fixFirst'], a['idx'])
    elif a['op'] == 'SetPose':
        s.set_pose(a['idx'])
    elif a['op'] == 'SetMeas':
        s.set_meas(a['idx'])
    elif a['op'] == 'OptCall':
        counters['nopt'] += 1
        nopt = counters['nopt']
        split = split_fn(a['maxIter'], nopt, sid) if split_fn else None
        s.optimize(a['maxIter'], a['fixFirst'], a['verbose'], resolve_tol(s.g, a), split=split, twin=(nopt % twin_every == 0))


_REJ = re.compile(r'<<"REJECT", (\d+), (\d+), "([^"]+)">>')


def validate(run, events, name='Trace_run'):
    """Validate recorded events against Trace_GraphSLAM.  Returns list of (sid, seq, clause)."""
    d = tlc.scratch()
    with open(os.path.join(d, 'trace.ndjson'), 'w') as f:
        for ev in events:
            f.write(json.dumps(ev) + '\n')
    mc = '---- MODULE %s ----\nEXTENDS Trace_GraphSLAM\n====\n' % name
    cfg = 'SPECIFICATION TSpec\nPOSTCONDITION TraceConsumed\n'
    try:
        res = tlc.run(name, cfg, mc_text=mc, workers=1, keep_dir=d, timeout=1800)
        if res.violation:
            raise tlc.TLCError('trace not consumed completely (%s):\n%s' % (res.violation, res.out[-2500:]))
        if res.distinct != len(events) + 1:
            raise tlc.TLCError('trace validation visited %d states for %d events' % (res.distinct, len(events)))
        run.add_tlc(res, 'Trace_GraphSLAM (%d events)' % len(events))
        return [(int(a), int(b), c) for a, b, c in _REJ.findall(res.out)]
    finally:
        shutil.rmtree(d, ignore_errors=True)


def histories(run, names, num, depth, accept, part='history', max_iters=(1, 2, 3), seed_shift=0):
    """Sessions WITH the user's edits (GraphSLAM!SetPose / SetMeas between queries, optimizer calls and reloads), validated by Trace_GraphSLAM.
    `accept(clause, event)` selects the rejections that are verdicts of the calling property: the clauses `query-fresh` / `opt-fresh` say that
    the value of a call is a function of the abstract state - the same call on a graph rebuilt from the current numbers gives the same bits -,
    so a graph reached THROUGH A HISTORY is held to the same standard as a fresh one."""
    behaviours = generate(run, names, run.seed + seed_shift, num, depth, max_iters=max_iters, workers=8, edits=True)

    def a(op, **kw):
        d = {'op': op, 'q': '-', 'target': 0, 'maxIter': 0, 'fixFirst': False, 'verbose': False, 'tol': '-', 'idx': 0, 'flag': False}
        d.update(kw)
        return d
    # hand-written histories, whatever the seed generated: every query before and after an optimizer run that ends at max_iter, after an
    # in-place and after a re-assigning pose edit, after each kind of measurement edit; then a second optimizer call
    qs = ('calc_chi2', 'edge_chi2', 'edge_error', 'edge_jacobians', 'edge_contribs', 'edge_numjac')
    for n in names:
        beh = [a('Query', q=q, target=t) for t in (1, 2) for q in qs]
        beh += [a('OptCall', maxIter=2, fixFirst=True, tol='0')] + [a('Query', q=q, target=t) for t in (1, 2, 3) for q in qs]
        for k in (1, 2, 3, 4):
            beh += [a('SetPose', idx=k)] + [a('Query', q=q, target=t) for t in (1, 2, 3) for q in qs]
        for k in (1, 2, 3):
            beh += [a('SetMeas', idx=k)] + [a('Query', q=q, target=t) for t in (1, 2, 3) for q in qs]
        beh += [a('OptCall', maxIter=3, fixFirst=False, tol='1e-4'), a('Query', q='calc_chi2', target=1), a('SetPose', idx=2), a('OptCall', maxIter=2, fixFirst=True, tol='0', verbose=True),
                a('Query', q='calc_chi2', target=1)]
        behaviours.append((n, beh))
    events = []
    sessions = play(behaviours, run.seed, events, twin_every=10 ** 6)
    rejects = validate(run, events, name='Trace_history')
    byid = {(e['sid'], e['seq']): e for e in events}
    ops = {}
    for e in events:
        ops[e['op']] = ops.get(e['op'], 0) + 1
        if e['op'] in ('Query', 'OptCall'):
            run.count(key=(part, e['sid'], e['seq']), nontrivial=True)
    if min(ops.get('SetPose', 0), ops.get('SetMeas', 0), ops.get('OptCall', 0), ops.get('Query', 0)) == 0:
        raise RuntimeError('vacuity guard (histories): %r' % ops)
    run.notes[part] = {'sessions': len(sessions), 'events_by_operation': ops, 'fresh_comparisons_unavailable': sum(x.fresh_unavailable for x in sessions.values())}
    run.replayed += len(sessions)
    n = 0
    for sid, seq, clause in rejects:
        ev = byid[(sid, seq)]
        if not accept(clause, ev):
            continue
        s = sessions[sid]
        n += 1
        prefix = [{k: v for k, v in x.items() if k not in ('verts', 'edges', 'rep', 'cls')} for x in events if x['sid'] == sid and x['seq'] < seq][-6:]
        run.violation(dict(part=part, clause=clause, op=ev['op'], q=ev.get('q'), template=s.template),
                      'history (template %s, session %d event %d, %s %s): clause %s - the call gives another value on the graph reached through this history than on a graph '
                      'rebuilt from the same numbers | preceding calls %r' % (s.template, sid, seq, ev['op'], ev.get('q', ''), clause, [(x['op'], x.get('q', x.get('idx'))) for x in prefix]),
                      dict(template=s.template, event={k: v for k, v in ev.items() if k not in ('verts', 'edges')}, prefix=prefix))
    return n
