"""Lattice graph cases for the Assembly model (C03 C04 C06 C07 C08): generation, real-object construction, exact solve."""
import copy
import math
import os
import pickle
import tempfile
import random
import warnings
from fractions import Fraction

import numpy as np

from graphslam.edge.edge_landmark import EdgeLandmark
from graphslam.edge.edge_odometry import EdgeOdometry
from graphslam.graph import Graph
from graphslam.vertex import Vertex

from . import build as B
from . import edgecases as EC
from . import graphs as G

warnings.filterwarnings('ignore')

# small rational rotations (vector part well below 1) for inconsistent measurements
Q_SMALL3 = [q for q in B.signed_perms4((3, 4, 0, 12), 13) if abs(q[3]) == 12] + [q for q in B.signed_perms4((8, 0, 0, 15), 17) if abs(q[3]) == 15]
R_SMALL2 = [(4, 3, 5), (4, -3, 5), (12, 5, 13), (12, -5, 13), (3, 4, 5), (5, -12, 13)]
W_SPD = [EC.W_id, EC.W_diag, EC.W_cross, EC.W_cross2, EC.W_cross3]
PYTH2 = [(3, 4), (-3, 4), (4, -3), (5, 12), (-12, 5), (6, 8), (0, 5), (-7, 0), (8, -15)]
PYTH3 = [(1, 2, 2), (2, -1, 2), (2, 3, 6), (-6, 2, 3), (0, 3, 4), (4, 0, -3), (1, 4, 8), (-2, -2, 1)]


def point_kind(k):
    return 'R2' if B.DIM[k] == 2 else 'R3'


def rots_for(kind, rnd, rich):
    if kind == 'SE2':
        return rnd.choice(B.C4 + B.PY5 + (B.PY13 if rich else []))
    if kind == 'SE3':
        return rnd.choice(B.HURWITZ)
    return ()


def gen_graph(rnd, kind, n_poses, n_lm, n_extra, custom=False, fixed_mode='first', fix_first=True, noise=True, big=False, parallel_p=0.7):
    """One lattice graph case (dict for MC_Assembly).  kind in R2,R3,SE2,SE3."""
    pk = point_kind(kind)
    TT = EC.T2 if B.DIM[kind] == 2 else EC.T3
    verts = []
    rich_slot = rnd.randrange(n_poses)
    for j in range(n_poses):
        r = rots_for(kind, rnd, True)
        if kind == 'SE3' and j == rich_slot and rnd.random() < 0.5:
            r = rnd.choice(B.Q3 + B.Q5A)
        verts.append(dict(k=kind, t=list(rnd.choice(TT)), r=list(r), fixed=False))
    for j in range(n_lm):
        verts.append(dict(k=pk, t=list(rnd.choice(TT)), r=[], fixed=False))
    edges = []

    def W(n):
        return rnd.choice(W_SPD)(n)

    def meas_rot():
        if kind == 'SE2':
            return list(rnd.choice(B.C4 + B.PY5)) if not noise else list(rnd.choice(B.C4 + R_SMALL2))
        if kind == 'SE3':
            return list(rnd.choice(B.HURWITZ))
        return []

    def add_odo(a, b, cls='odo'):
        edges.append(dict(cls=cls, vs=[a + 1, b + 1], tz=list(rnd.choice(TT)), rz=meas_rot(), toff=[], roff=[], W=W(B.CDIM[kind])))
    for j in range(n_poses - 1):
        if rnd.random() < 0.5:
            add_odo(j, j + 1)
        else:
            add_odo(j + 1, j)                    # an edge may name the later vertex first
    for _ in range(n_extra):
        if n_poses >= 2:
            a, b = rnd.sample(range(n_poses), 2)
            add_odo(a, b)
    if n_poses >= 2 and rnd.random() < parallel_p:       # parallel edges, both orders
        a, b = rnd.sample(range(n_poses), 2)
        add_odo(a, b)
        add_odo(b, a)
    for j in range(n_lm):
        for a in rnd.sample(range(n_poses), min(n_poses, 1 + (rnd.random() < 0.5))):
            off_r = rots_for(kind, rnd, False)
            edges.append(dict(cls='lm', vs=[a + 1, n_poses + j + 1], tz=list(rnd.choice(TT)), rz=[], toff=list(rnd.choice(TT)), roff=list(off_r),
                              W=W(B.DIM[kind])))
    if custom:
        a = rnd.randrange(n_poses)
        edges.append(dict(cls='prior', vs=[a + 1], tz=list(rnd.choice(TT)), rz=meas_rot(), toff=[], roff=[], W=W(B.CDIM[kind])))
        if n_poses >= 2:
            a, b = rnd.sample(range(n_poses), 2)
            add_odo(a, b, 'relpose')
            # range edge needs a perfect-square separation: move vertex b to a Pythagorean offset of a
            sep = rnd.choice(PYTH2 if B.DIM[kind] == 2 else PYTH3)
            verts[b]['t'] = [verts[a]['t'][c] + sep[c] for c in range(B.DIM[kind])]
            edges.append(dict(cls='range', vs=[a + 1, b + 1], tz=[rnd.choice([1, 3, 5, 7])], rz=[], toff=[], roff=[], W=[[rnd.choice([1, 2, 4])]]))
        if n_poses + n_lm >= 3:
            tri = rnd.sample(range(n_poses + n_lm), 3)
            edges.append(dict(cls='mid', vs=[x + 1 for x in tri], tz=list(rnd.choice(TT)), rz=[], toff=[], roff=[], W=W(B.DIM[kind])))
    n = len(verts)
    if fixed_mode == 'first':
        pass
    elif fixed_mode == 'some':
        for j in rnd.sample(range(n), rnd.randint(1, max(1, n // 2))):
            verts[j]['fixed'] = True
    elif fixed_mode == 'landmark' and n_lm:
        verts[n_poses + rnd.randrange(n_lm)]['fixed'] = True
        verts[rnd.randrange(n_poses)]['fixed'] = True
    return dict(fixFirst=bool(fix_first), verts=verts, edges=edges)



def far_vertex(c, rnd):
    """Move one free point vertex (any free vertex of an R^n graph) far away: its exact Gauss-Newton step is then > 1e3."""
    fx = [v['fixed'] or (c['fixFirst'] and j == 0) for j, v in enumerate(c['verts'])]
    in_range = {x - 1 for e in c['edges'] if e['cls'] == 'range' for x in e['vs']}        # (range edges need Pythagorean separations)
    cand = [j for j, v in enumerate(c['verts']) if not fx[j] and v['k'] in ('R2', 'R3') and j not in in_range]
    if cand:
        j = rnd.choice(cand)
        off = rnd.choice([(2000, -1500, 1200), (-1800, 2400, -700)])
        c['verts'][j]['t'] = [a + b for a, b in zip(c['verts'][j]['t'], off)]
    return c


def permute(case, rnd):
    """Same graph with a permuted vertex list (edges refer to vertices by position, so they are re-indexed)."""
    n = len(case['verts'])
    perm = list(range(n))
    rnd.shuffle(perm)                              # new position p holds old vertex perm[p]
    inv = {old: new for new, old in enumerate(perm)}
    verts = [dict(case['verts'][old]) for old in perm]
    edges = [dict(e, vs=[inv[x - 1] + 1 for x in e['vs']]) for e in case['edges']]
    return dict(case, verts=verts, edges=edges), perm


def merge(c1, c2, rnd):
    """Two components (possibly of different dimensionality) in one graph, vertex lists interleaved."""
    n1 = len(c1['verts'])
    verts = [dict(v) for v in c1['verts']] + [dict(v) for v in c2['verts']]
    edges = [dict(e) for e in c1['edges']] + [dict(e, vs=[x + n1 for x in e['vs']]) for e in c2['edges']]
    return dict(fixFirst=c1['fixFirst'], verts=verts, edges=edges)


def components_fixed(case):
    """Every connected component contains a fixed vertex (well-posedness of the gauge)."""
    n = len(case['verts'])
    parent = list(range(n))

    def find(x):
        while parent[x] != x:
            parent[x] = parent[parent[x]]
            x = parent[x]
        return x
    for e in case['edges']:
        for x in e['vs'][1:]:
            parent[find(x - 1)] = find(e['vs'][0] - 1)
    fx = [v['fixed'] or (case['fixFirst'] and j == 0) for j, v in enumerate(case['verts'])]
    comps = {}
    for j in range(n):
        comps.setdefault(find(j), []).append(j)
    return all(any(fx[j] for j in c) for c in comps.values())


def needed_K(case):
    return max(sum(B.CDIM[case['verts'][x - 1]['k']] for x in e['vs']) for e in case['edges'])


ID_MAPS = [lambda j: j, lambda j: -7 * j - 3, lambda j: 2 ** 33 + 17 * j, lambda j: 1000 - j]


class CustomRange(G.RangeEdge):
    pass


_bg = [0]


def build_graph(case, idmap=None, shift=None, negq=(), info_scale=1.0, split=None, edge_order=None):
    """Real Graph for a lattice graph case (fresh objects).

    Representation choices of the same physical graph: idmap (relabelling), shift(kind, index) -> multiples of 2*pi added to SE(2)
    angles of vertices ('v', j) / measurements ('z', n) / offsets ('o', n), negq: set of such keys whose SE(3) quaternion is negated,
    info_scale: all information matrices scaled, split: index of an edge replaced by two edges with half the information each,
    edge_order: permutation of the edge list.
    """
    idmap = idmap or (lambda j: j)
    sh = shift or (lambda what, j: 0)
    vs = []
    _bg[0] += 1
    # a pose obtained from identity() is the caller's own object: scribbling over one must not reach anything the library does later
    for cls in B.CLS_OF.values():
        scratch = cls.identity()
        scratch[:] = 99.0

    def offset_pose(k, e, n):
        t, r = e['toff'], tuple(e['roff'])
        if not any(t) and r in ((), (1, 0, 1), (0, 0, 0, 1, 1)) and not (k == 'SE2' and sh('o', n)) and ('o', n) not in negq and _bg[0] % 2:
            return B.CLS_OF[k].identity()
        return B.pose(k, e['toff'], e['roff'], shift=sh('o', n) if k == 'SE2' else 0, negq=(('o', n) in negq))
    for j, v in enumerate(case['verts']):
        p = B.pose(v['k'], v['t'], v['r'], shift=sh('v', j) if v['k'] == 'SE2' else 0, negq=(('v', j) in negq))
        # (fixed flags are truthy values: every other graph passes ints 1 / 0, or a mix, instead of bools)
        fx = bool(v['fixed']) if _bg[0] % 2 == 0 else (int(bool(v['fixed'])) if (_bg[0] % 4 == 1 or j % 2 == 0) else bool(v['fixed']))
        vs.append(Vertex(idmap(j), p, fixed=fx))
    es = []
    for n, e in enumerate(case['edges']):
        ids = [idmap(x - 1) for x in e['vs']]
        k = case['verts'][e['vs'][0] - 1]['k']
        reps = 2 if split == n else 1
        for _ in range(reps):
            Wm = B.info(e['W']) * info_scale / reps
            zsh = sh('z', n) if k == 'SE2' else 0
            if e['cls'] == 'odo':
                es.append(EdgeOdometry(list(ids), Wm, B.pose(k, e['tz'], e['rz'], shift=zsh, negq=(('z', n) in negq))))
            elif e['cls'] == 'lm':
                k2 = case['verts'][e['vs'][1] - 1]['k']
                if (_bg[0] + n) % 2:
                    es.append(EdgeLandmark(list(ids), Wm, B.pose(k2, e['tz']), offset_pose(k, e, n), offset_id=0))
                else:
                    es.append(EdgeLandmark(list(ids), Wm, B.pose(k2, e['tz']), offset_pose(k, e, n)))          # (no offset id given: it is optional)
            elif e['cls'] == 'prior':
                es.append(G.PriorEdge(list(ids), Wm, B.pose(k, e['tz'], e['rz'], shift=zsh, negq=(('z', n) in negq))))
            elif e['cls'] == 'relpose':
                es.append(G.RelPoseEdge(list(ids), Wm, B.pose(k, e['tz'], e['rz'], shift=zsh, negq=(('z', n) in negq))))
            elif e['cls'] == 'range':
                es.append(G.RangeEdge(list(ids), Wm, float(e['tz'][0])))
            elif e['cls'] == 'mid':
                es.append(G.MidpointEdge(list(ids), Wm, np.array([float(x) for x in e['tz']])))
            else:
                raise ValueError(e['cls'])
    if edge_order is not None:
        es = [es[i] for i in edge_order(len(es))]
    if _bg[0] % 4 == 3 and all(abs(v.id) < 2 ** 62 for v in vs):
        # argument forms of ids: numpy integers as vertex ids, tuples / integer arrays as an edge's list of ids
        for v in vs:
            v.id = np.int64(v.id)
        for j, e in enumerate(es):
            e.vertex_ids = tuple(e.vertex_ids) if j % 2 else np.array(e.vertex_ids, dtype=np.int64)
    if _bg[0] % 3 == 0:
        # History dimension: the edge objects were used before, in another Graph over other Vertex objects with the same ids (and other
        # values); the new Graph must evaluate them on ITS vertices.
        decoy = [Vertex(v.id, type(v.pose).identity(), fixed=not v.fixed) for v in vs]
        Graph(es, decoy).calc_chi2()
    g = Graph(es, vs)
    # Provenance dimension: the same graph as a deep copy, after a pickle round trip, or written to a .g2o file and loaded again (where the
    # format can express it; the flags, which the format does not carry, are set again) -- it must behave like the directly built one.
    mode = _bg[0] % 7
    if mode == 1:
        g = copy.deepcopy(g)
    elif mode == 4:
        g = pickle.loads(pickle.dumps(g))
    elif mode in (0, 2, 5) and _file_expressible(es):
        g = _through_file(g, external=(mode != 5))
    PROVENANCE[0] = {1: 'deepcopy', 4: 'pickle'}.get(mode, ('file (library writer)' if mode == 5 else 'file (written by the harness)') if mode in (0, 2, 5) and _file_expressible(es) else 'direct')
    PROV_COUNTS[PROVENANCE[0]] = PROV_COUNTS.get(PROVENANCE[0], 0) + 1
    return g


PROVENANCE = ['direct']
PROV_COUNTS = {}


def _file_expressible(es):
    for e in es:
        if type(e) is EdgeOdometry and isinstance(e.estimate, (B.CLS_OF['SE2'], B.CLS_OF['SE3'])):
            continue
        if type(e) is EdgeLandmark and isinstance(e.offset, B.CLS_OF['SE3']):
            continue
        if type(e) is EdgeLandmark and isinstance(e.offset, B.CLS_OF['SE2']) and not np.any(np.asarray(e.offset)):
            continue
        return False
    return True


def write_external(g, path):
    """A .g2o file for g written by the harness itself, following the token layout of G2O.tla (not by the library's writer): what another
    program would hand over."""
    def nums(a):
        return ' '.join(repr(float(x)) for x in np.asarray(a, dtype=float).reshape(-1))

    def upper(m):
        m = np.asarray(m, dtype=float)
        return ' '.join(repr(float(m[i, j])) for i in range(m.shape[0]) for j in range(i, m.shape[0]))
    vt = {'SE2': 'VERTEX_SE2', 'SE3': 'VERTEX_SE3:QUAT', 'R2': 'VERTEX_XY', 'R3': 'VERTEX_TRACKXYZ'}
    with open(path, 'w') as f:
        for key, prm in (g._g2o_params or {}).items():
            f.write('%s %d %s\n' % (key[0], key[1], nums(prm.value)))                 # PARAMS_SE3OFFSET id x y z qx qy qz qw
        for v in g._vertices:
            f.write('%s %d %s\n' % (vt[B.KIND_OF[type(v.pose)]], v.id, nums(v.pose)))
        for e in g._edges:
            a, b = e.vertex_ids
            if type(e) is EdgeOdometry:
                f.write('%s %d %d %s %s\n' % ('EDGE_SE2' if len(e.estimate) == 3 else 'EDGE_SE3:QUAT', a, b, nums(e.estimate), upper(e.information)))
            elif isinstance(e.offset, B.CLS_OF['SE2']):
                f.write('EDGE_SE2_XY %d %d %s %s\n' % (a, b, nums(e.estimate), upper(e.information)))
            else:
                f.write('EDGE_SE3_TRACKXYZ %d %d %d %s %s\n' % (a, b, e.offset_id, nums(e.estimate), upper(e.information)))


def _through_file(g, external=False):
    from graphslam.g2o_parameters import G2OParameterSE3Offset
    reg = {}
    for n, e in enumerate(g._edges):
        if type(e) is EdgeLandmark and isinstance(e.offset, B.CLS_OF['SE3']):
            e.offset_id = n + 1
            reg[('PARAMS_SE3OFFSET', n + 1)] = G2OParameterSE3Offset(('PARAMS_SE3OFFSET', n + 1), e.offset)
    g._g2o_params = reg
    fd, path = tempfile.mkstemp(suffix='.g2o')
    os.close(fd)
    try:
        if external:
            write_external(g, path)
        else:
            g.to_g2o(path)
        g2 = Graph.from_g2o(path)
    finally:
        os.unlink(path)
    flags = {v.id: v.fixed for v in g._vertices}
    if any(v.fixed for v in g2._vertices):
        # (GraphSLAM!Reload, keep = TRUE) the library's file claims to carry the flags: the graph is used as loaded -- a user of such a library
        # does not set them again.  Today's format has no field for them (keep = FALSE): nothing comes back set and the flags are set again.
        return g2
    for v in g2._vertices:
        v.fixed = flags[v.id]
    return g2


# ---------- exact linear algebra (Fractions) ----------
def fsolve(A, B_cols):
    """Solve A X = B exactly (A: n x n Fractions, B_cols: list of rhs vectors).  Returns list of solution vectors or None if singular."""
    n = len(A)
    M = [list(A[i]) + [col[i] for col in B_cols] for i in range(n)]
    for c in range(n):
        piv = next((r for r in range(c, n) if M[r][c] != 0), None)
        if piv is None:
            return None
        M[c], M[piv] = M[piv], M[c]
        inv = 1 / M[c][c]
        M[c] = [x * inv for x in M[c]]
        for r in range(n):
            if r != c and M[r][c] != 0:
                f = M[r][c]
                M[r] = [x - f * y for x, y in zip(M[r], M[c])]
    return [[M[i][n + k] for i in range(n)] for k in range(len(B_cols))]


def atom_value(a):
    return math.atan2(a[1][0] / a[1][1], a[0][0] / a[0][1])


def has_wrap_atom(obs):
    return any(a[0][0] < 0 and a[1][0] == 0 for a in obs['atoms'])


def exact_step(obs):
    """dx of the reduced normal equations (floats; exact up to the substitution of the angle atoms), chi2, cond."""
    H = [[Fraction(q[0], q[1]) for q in row] for row in obs['H']]
    nf = len(H)
    if nf == 0:
        return np.zeros(0), 1.0
    cols = [[-Fraction(q[0], q[1]) for q in obs['b0']]] + [[-Fraction(q[0], q[1]) for q in col] for col in obs['B1']]
    sol = fsolve(H, cols)
    if sol is None:
        return None, float('inf')
    dx = np.array([float(x) for x in sol[0]])
    for k, a in enumerate(obs['atoms']):
        dx = dx + atom_value(a) * np.array([float(x) for x in sol[1 + k]])
    Hf = np.array([[float(x) for x in row] for row in H])
    return dx, float(np.linalg.cond(Hf))


def exact_chi2(obs):
    tot = 0.0
    k = 0
    for form, err in zip(obs['chi2'], obs['errs']):
        f0, f1, f2 = (form[x][0] / form[x][1] for x in ('c0', 'c1', 'c2'))
        a = 0.0
        for x in err:
            if isinstance(x[0], str):
                a = math.atan2(x[2][0] / x[2][1], x[1][0] / x[1][1])
        tot += f0 + f1 * a + f2 * a * a
    return tot


def code_dx(old_poses, g):
    """The increment the code applied to every vertex, recovered with the library's own (-):  compact(new (-) old)."""
    out = []
    for p0, v in zip(old_poses, g._vertices):
        out.append(np.asarray((v.pose - p0).to_compact(), dtype=float))
    return out
