"""Shared by C09 / C10 (and C11): lattice cases for pose operations, comparison of real poses with exact ones."""
import math
import random

import numpy as np

from . import build as B
from .edgecases import T2, T2L, T3, T3L

# boxplus increments with rational sqrt(1 - |dr|^2): <<x, y, z, den>>
DR3 = [(0, 0, 0, 1), (3, 0, 0, 5), (0, 4, 0, 5), (0, 0, -3, 5), (1, 1, 1, 2), (-1, 1, -1, 2), (1, 0, 0, 1), (0, -1, 0, 1),
       (40, 0, 0, 401), (0, 0, -20, 101), (-4, 0, 0, 5), (1, -1, 1, 2), (1, -2, 2, 5), (-2, 4, 5, 9), (2, -4, 6, 9), (2, -2, 4, 7), (-5, 2, 4, 7)]


def gen_cases(tier, seed):
    rnd = random.Random(seed * 104729 + 5)
    thorough = tier == 'thorough'
    cases = []
    hz = B.HURWITZ
    # SE(3): Hurwitz pairs (closed, dyadic) exhaustively in thorough; mixed denominators sampled
    pairs = [(a, b) for a in hz for b in hz]
    if not thorough:
        # every Hurwitz unit (incl. (0,0,0,-1), the other cover of the identity) occurs as `a` and as `b`
        pairs = [(a, rnd.choice(hz)) for a in hz] + [(rnd.choice(hz), b) for b in hz] + rnd.sample(pairs, 120)
    for a, b in pairs:
        t = rnd.sample(T3, 3)
        cases.append(dict(k='SE3', ta=t[0], ra=a, tb=t[1], rb=b, tc=t[2], rc=rnd.choice(hz), pt=rnd.choice(T3), dt=rnd.choice(T3), dr=rnd.choice(DR3[:8])))
    for _ in range(6000 if thorough else 220):
        ra = rnd.choice(B.QMIXED + hz)
        rb = rnd.choice(B.Q3 + B.Q5A + hz)
        rc = rnd.choice(hz)
        t = [rnd.choice(T3) for _ in range(3)]
        cases.append(dict(k='SE3', ta=t[0], ra=ra, tb=t[1], rb=rb, tc=t[2], rc=rc, pt=rnd.choice(T3), dt=rnd.choice(T3), dr=rnd.choice(DR3[:8])))
    for _ in range(1500 if thorough else 80):
        rr = [rnd.choice(hz), rnd.choice(B.QSMALL + B.QNEARPI), rnd.choice(hz)]
        if rnd.random() < 0.5:
            rr[0], rr[1] = rr[1], rr[0]
        t = [rnd.choice(T3) for _ in range(3)]
        cases.append(dict(k='SE3', ta=t[0], ra=rr[0], tb=t[1], rb=rr[1], tc=t[2], rc=rr[2], pt=rnd.choice(T3), dt=rnd.choice(T3), dr=rnd.choice(DR3)))
    for _ in range(300 if thorough else 60):
        t = [rnd.choice(T3L) for _ in range(3)]
        cases.append(dict(k='SE3', ta=t[0], ra=rnd.choice(hz), tb=t[1], rb=rnd.choice(hz), tc=t[2], rc=rnd.choice(hz), pt=rnd.choice(T3L + T3), dt=rnd.choice(T3), dr=rnd.choice(DR3[:8])))
    # SE(2)
    r2 = B.C4 + B.PY5 + B.PY13
    pairs = [(a, b) for a in r2 for b in r2]
    if not thorough:
        pairs = rnd.sample(pairs, 120)
    for a, b in pairs:
        t = rnd.sample(T2, 3)
        cases.append(dict(k='SE2', ta=t[0], ra=a, tb=t[1], rb=b, tc=t[2], rc=rnd.choice(r2), pt=rnd.choice(T2), dt=rnd.choice(T2), dr=rnd.choice(B.C4 + B.PY5)))
    for _ in range(1500 if thorough else 100):
        rr = [rnd.choice(B.PY401), rnd.choice(B.C4 + B.PY5), rnd.choice(B.C4 + B.PY5)]
        rnd.shuffle(rr)
        t = [rnd.choice(T2) for _ in range(3)]
        cases.append(dict(k='SE2', ta=t[0], ra=rr[0], tb=t[1], rb=rr[1], tc=t[2], rc=rr[2], pt=rnd.choice(T2), dt=rnd.choice(T2), dr=rnd.choice(B.C4 + B.PY5)))
    for _ in range(200 if thorough else 50):
        t = [rnd.choice(T2L) for _ in range(3)]
        cases.append(dict(k='SE2', ta=t[0], ra=rnd.choice(B.C4 + B.PY5), tb=t[1], rb=rnd.choice(B.C4), tc=t[2], rc=rnd.choice(B.C4), pt=rnd.choice(T2 + T2L), dt=rnd.choice(T2), dr=rnd.choice(B.C4 + B.PY5)))
    # R^n
    for k, TT in (('R2', T2 + T2L), ('R3', T3 + T3L)):
        for _ in range(150 if thorough else 40):
            t = [rnd.choice(TT) for _ in range(3)]
            cases.append(dict(k=k, ta=t[0], ra=[], tb=t[1], rb=[], tc=t[2], rc=[], pt=rnd.choice(TT), dt=rnd.choice(TT), dr=[]))
    # tiny rotations (0.5 deg ... 0.001 deg) as RIGHT operand of a composition: q = (2n, 0, 0, n^2 - 1) / (n^2 + 1); the composition is linear in
    # that quaternion, so the large denominator fits TLC's integers (anything that rotates a vector with it would not)
    for n in (100, 500, 2000, 20000):
        for ax in range(3):
            for sg in (1, -1):
                q = [0, 0, 0, n * n - 1, n * n + 1]
                q[ax] = sg * 2 * n
                for _ in range(3 if thorough else 1):
                    cases.append(dict(k='SE3', ta=rnd.choice(T3), ra=rnd.choice(hz), tb=rnd.choice(T3), rb=tuple(q), tc=[0, 0, 0], rc=B.QIdent if hasattr(B, 'QIdent') else (0, 0, 0, 1, 1),
                                      pt=[0, 0, 0], dt=[0, 0, 0], dr=(0, 0, 0, 1), lite=True))
    NQ = [(1, 2, 2, 4), (2, 3, 6, 0), (0, 0, -3, -4), (-1, -2, -2, -4), (2, -4, 5, -6), (0, 0, 0, -3), (3, 0, 0, 0), (1, 1, 1, 1), (-1, 1, -1, -1), (4, -4, 7, 0), (0, 5, 0, -12)]
    for c in cases:
        c['nq'] = list(rnd.choice(NQ)) if c['k'] == 'SE3' else []
        # the group laws use an operand twice (a a^-1, b (a-b)): beyond TLC's 32-bit headroom for the 401/101 families
        c['laws'] = all((not c[k]) or c[k][-1] <= 13 for k in ('ra', 'rb', 'rc'))
        c.setdefault('lite', False)
    return cases


def headroom_class(c):
    dens = tuple((c[k][-1] if c.get(k) else 0) for k in ('ra', 'rb', 'rc', 'dr'))
    tmax = max([abs(x) for k in ('ta', 'tb', 'tc', 'pt', 'dt') for x in c[k]] + [1])
    return (c['k'], dens, tmax > 20)


def scale_of(c):
    return max([abs(x) for k in ('ta', 'tb', 'tc', 'pt', 'dt') for x in c[k]] + [1])


def fv(v):
    return np.array([q[0] / q[1] for q in v], dtype=float)


def pose_dev(p, exp):
    """Deviation between a real pose and an exact pose record (POut), as rigid motions.  Returns (dev_t, dev_r, flipped)."""
    k = exp['k']
    if B.KIND_OF.get(type(p)) != k:
        return float('inf'), float('inf'), False
    t = fv(exp['t'])
    arr = np.asarray(p, dtype=float)
    n = len(t)
    dt = float(np.max(np.abs(arr[:n] - t))) if n else 0.0
    if k == 'SE2':
        c, s = exp['r'][0], exp['r'][1]
        a = math.atan2(s[0] / s[1], c[0] / c[1])
        dr = abs((arr[2] - a + math.pi) % (2 * math.pi) - math.pi)
        if not (-math.pi <= arr[2] <= math.pi):
            dr = float('inf')
        return dt, dr, False
    if k == 'SE3':
        q = fv(exp['r'])
        d1 = float(np.max(np.abs(arr[3:] - q)))
        d2 = float(np.max(np.abs(arr[3:] + q)))
        return dt, min(d1, d2), d2 < d1
    return dt, 0.0, False


def delta_array(c):
    k = c['k']
    if k == 'SE2':
        return np.array([float(c['dt'][0]), float(c['dt'][1]), math.atan2(c['dr'][1], c['dr'][0])])
    if k == 'SE3':
        d = float(c['dr'][3])
        return np.array([float(x) for x in c['dt']] + [c['dr'][0] / d, c['dr'][1] / d, c['dr'][2] / d])
    return np.array([float(x) for x in c['dt']])
