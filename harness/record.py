"""Binding B: drive a real Graph along a scenario, record one event per public call (projected state after the call)."""
import contextlib
import copy
import hashlib
import io
import logging
import os
import re
import tempfile
import warnings

import numpy as np

from graphslam.edge.edge_landmark import EdgeLandmark
from graphslam.edge.edge_odometry import EdgeOdometry
from graphslam.graph import Graph
from graphslam.pose.base_pose import BasePose

from . import build as B

warnings.filterwarnings('ignore')
EPS = np.finfo(float).eps


def dg(*arrays):
    h = hashlib.sha1()
    for a in arrays:
        if a is None:
            h.update(b'None')
        elif isinstance(a, (bool, np.bool_)):
            h.update(b'T' if a else b'F')
        elif isinstance(a, str):
            h.update(a.encode())
        else:
            h.update(np.ascontiguousarray(np.asarray(a, dtype=np.float64)).tobytes())
            h.update(str(np.asarray(a).shape).encode())
    return h.hexdigest()[:14]


def tname(x):
    if isinstance(x, BasePose):
        return B.KIND_OF[type(x)]
    if x is None:
        return 'none'
    if isinstance(x, np.ndarray):
        return 'array'
    return 'float'


def project_vertices(vs):
    return [{'id': str(v.id), 'kind': B.KIND_OF[type(v.pose)], 'fixed': bool(v.fixed), 'pose': dg(v.pose)} for v in vs]


def project_edges(es):
    out = []
    for e in es:
        cls = 'odo' if type(e) is EdgeOdometry else ('lm' if type(e) is EdgeLandmark else 'custom')
        inf = np.asarray(e.information)
        shape = [int(inf.shape[0]), int(inf.shape[1]) if inf.ndim > 1 else 0]
        off = getattr(e, 'offset', None)
        valid = True
        if cls == 'custom':
            try:
                valid = bool(e.is_valid())
            except Exception:  # noqa
                valid = False
        out.append({'cls': cls, 'vids': [str(i) for i in e.vertex_ids], 'est': tname(e.estimate), 'off': tname(off) if cls == 'lm' else 'none',
                    'info': shape, 'valid': valid,
                    'num': dg(e.information, e.estimate, off, str(getattr(e, 'offset_id', None)), type(e).__name__)})
    return out


def same(a, b):
    if a is None or b is None:
        return False
    a, b = float(a), float(b)
    if np.isnan(a) or np.isnan(b):
        return bool(np.isnan(a) and np.isnan(b))
    return a == b or abs(a - b) <= 1e-12 * abs(b)


def pose_digests(g):
    return [dg(v.pose) for v in g._vertices]


def _bits(p):
    """A pose object of the same class holding the same float64 bits, made without calling any library code but the class's array hooks."""
    return np.array(np.asarray(p), dtype=np.float64).view(type(p))


def _val(x):
    if isinstance(x, BasePose):
        return _bits(x)
    if isinstance(x, np.ndarray):
        return np.array(x)
    return copy.deepcopy(x)


def fresh_clone(g):
    """A graph built FROM SCRATCH out of the numbers of g (the abstract state of the specification: ids, kinds, flags, poses, measurements,
    information, offsets, list orders): new Vertex objects, new edge objects carrying only the documented attributes (and the public extra
    attributes of user-defined classes), a new Graph.  Whatever else the objects of g have accumulated in their history is not carried over."""
    from graphslam.vertex import Vertex
    vs = [Vertex(v.id, _bits(v.pose), bool(v.fixed)) for v in g._vertices]
    es = []
    for e in g._edges:
        ids = list(e.vertex_ids) if isinstance(e.vertex_ids, list) else copy.deepcopy(e.vertex_ids)
        n = None
        # through the class's own constructor (so that whatever an object sets up for itself at creation exists), with the documented arguments
        try:
            if isinstance(e, EdgeLandmark):
                n = type(e)(ids, _val(e.information), _val(e.estimate), offset=_val(e.offset), offset_id=copy.deepcopy(e.offset_id))
            else:
                n = type(e)(ids, _val(e.information), _val(e.estimate))
        except Exception:  # noqa  (a user-defined class with another signature)
            n = None
        if n is None:
            n = copy.copy(e)
            n.vertices = None
        for k, x in vars(e).items():          # public extra attributes of user-defined classes; the documented ones again (a constructor may transform them)
            if k == 'vertices' or k.startswith('_'):
                continue
            setattr(n, k, ids if k == 'vertex_ids' else _val(x))
        es.append(n)
    h = Graph(es, vs)
    if hasattr(g, '_g2o_params'):
        h._g2o_params = copy.deepcopy(g._g2o_params)
    return h


FRESH_QUERIES = ('edge_numjac', 'calc_chi2', 'edge_error', 'edge_chi2', 'edge_jacobians', 'edge_contribs', 'to_g2o', 'vertex_to_g2o', 'edge_to_g2o')


class Session:
    """One recorded session on one real graph."""

    def __init__(self, sid, sink):
        self.sid, self.sink, self.seq = sid, sink, 0
        self.g = None
        self.details = {}        # seq -> extra (not given to TLC) for diagnostics / finding keys
        self.fresh = True        # compare queries / optimizer calls with a graph rebuilt from scratch out of the current numbers
        self.edits = 0
        self.fresh_unavailable = 0

    def emit(self, ev, verts, edges, detail=None):
        self.seq += 1
        ev.update(sid=self.sid, seq=self.seq, verts=project_vertices(verts), edges=project_edges(edges))
        self.sink.append(ev)
        if detail is not None:
            self.details[self.seq] = detail
        return ev

    # ---- construction ----
    def construct(self, edges, verts):
        raised = False
        self.vs, self.es = verts, edges
        try:
            self.g = Graph(edges, verts)
        except Exception as ex:  # noqa
            raised = True
            self.g = None
        bound = []
        if not raised:
            for e in edges:
                idx = []
                for v in e.vertices:
                    idx.append([j + 1 for j, w in enumerate(verts) if w is v][0])
                bound.append(idx)
        gidx = [int(v.gradient_index) if v.gradient_index is not None else -1 for v in verts]
        self.emit({'op': 'Construct', 'raised': raised, 'bound': bound, 'gidx': gidx}, verts, edges)
        return not raised

    # ---- queries ----
    def query(self, q, target):
        g = self.g
        e = g._edges[(target - 1) % len(g._edges)] if g._edges else None
        v = g._vertices[(target - 1) % len(g._vertices)]
        self.ok = True
        try:
            res = self._do_query(q, g, e, v)
        except NotImplementedError:
            res = 'raised:NotImplementedError'
        except Exception as ex:  # noqa  -- observation: a query must not raise on a valid graph
            res = 'raised:' + type(ex).__name__
            self.ok = False
        # the same query on a graph built from scratch out of the current numbers: a query's value is a function of the abstract state
        fresh = res
        if q in FRESH_QUERIES and self.fresh:
            ok0 = self.ok
            try:
                h = fresh_clone(g)
                fresh = self._do_query(q, h, h._edges[(target - 1) % len(h._edges)] if h._edges else None, h._vertices[(target - 1) % len(h._vertices)])
            except NotImplementedError:
                fresh = 'raised:NotImplementedError'
            except Exception as ex:  # noqa  (the comparison is unavailable, which is not a verdict: what a fresh graph does is judged elsewhere)
                fresh = res
                self.fresh_unavailable += 1
            self.ok = ok0
        self.emit({'op': 'Query', 'q': q, 'target': int(target), 'result': res, 'fresh': fresh, 'ok': bool(self.ok)}, g._vertices, g._edges)

    def _do_query(self, q, g, e, v):
        import matplotlib.pyplot as plt
        if q == 'calc_chi2':
            return dg(g.calc_chi2())
        if q == 'edge_error':
            return dg(e.calc_error())
        if q == 'edge_chi2':
            return dg(e.calc_chi2())
        if q == 'edge_jacobians':
            return dg(*e.calc_jacobians())
        if q == 'edge_numjac':
            # numerical differentiation asked for explicitly (the documented way of validating an analytic Jacobian), whatever the edge class
            from graphslam.edge.base_edge import BaseEdge
            return dg(*BaseEdge.calc_jacobians(e))
        if q == 'edge_contribs':
            c2, gr, he = e.calc_chi2_gradient_hessian()
            return dg(c2, *[a for _, a in gr], *[a for _, a in he], str([i for i, _ in gr]), str([i for i, _ in he]))
        if q == 'equals':
            # (also against a graph that really differs, in its VERTICES only: every heading moved by more than half a turn / positions by a few units)
            h = copy.deepcopy(g)
            for w in h._vertices:
                w.pose[-1 if len(w.pose) == 3 else 0] += 3.5
            r_hg = bool(h.equals(g, 1e-3))          # (the recorded graph as the ARGUMENT first: a comparison must not write into its argument either)
            return dg(bool(g.equals(copy.deepcopy(g))), bool(g.equals(g, 1e-9)), bool(g.equals(h)), r_hg)
        if q == 'to_g2o':
            fd, path = tempfile.mkstemp(suffix='.g2o')
            os.close(fd)
            try:
                g.to_g2o(path)
                with open(path) as f:
                    return dg(f.read())
            finally:
                os.unlink(path)
        if q == 'plot':
            try:
                g.plot(title='t')
            finally:
                plt.close('all')
            return 'plotted'
        if q == 'vertex_to_g2o':
            return dg(v.to_g2o())
        if q == 'edge_to_g2o':
            return dg(str(e.to_g2o()))
        if q == 'edge_plot':
            try:
                plt.figure()
                if any(len(w.pose.position) == 3 for w in e.vertices):
                    plt.gcf().add_subplot(111, projection='3d')
                e.plot()
            finally:
                plt.close('all')
            return 'plotted'
        if q == 'vertex_equals':
            return dg(bool(v.equals(copy.deepcopy(v))), bool(v.equals(g._vertices[0])))
        if q == 'edge_equals':
            return dg(bool(e.equals(copy.deepcopy(e))), bool(e.equals(g._edges[0])))
        if q == 'pose_ops':
            a = v.pose
            b = [w.pose for w in g._vertices if type(w.pose) is type(a)][0]
            pt = np.array(a.position) * 0.5
            delta = np.full(a.COMPACT_DIMENSIONALITY, 0.125)
            big = np.full(a.COMPACT_DIMENSIONALITY, 0.75)          # (for SE(3): a rotational increment OUTSIDE the boxplus domain, norm 1.3)
            before = (dg(a), dg(b), dg(pt), dg(delta), dg(big))
            def opt(f, *args):
                try:
                    return f(*args)
                except NotImplementedError:
                    return 'not-implemented'
            outs = [a + b, a - b, a.inverse, a + pt, a + delta, a + big, a.to_array(), a.to_compact(), a.position, np.atleast_1d(a.orientation), a.jacobian_boxplus(),
                    a.jacobian_self_oplus_other_wrt_self(b), a.jacobian_self_ominus_other_wrt_other(b), a.jacobian_inverse()]
            for nm in ('jacobian_self_oplus_other_wrt_self_compact', 'jacobian_self_oplus_other_wrt_other', 'jacobian_self_oplus_other_wrt_other_compact',
                       'jacobian_self_ominus_other_wrt_self', 'jacobian_self_ominus_other_wrt_self_compact', 'jacobian_self_ominus_other_wrt_other_compact'):
                outs.append(opt(getattr(a, nm), b))
            for nm in ('jacobian_self_oplus_point_wrt_self', 'jacobian_self_oplus_point_wrt_point'):
                outs.append(opt(getattr(a, nm), pt))
            if hasattr(a, 'to_matrix'):
                outs.append(a.to_matrix())
            self.ok = before == (dg(a), dg(b), dg(pt), dg(delta), dg(big))
            return dg(*outs)
        if q == 'pose_copy':
            a = v.pose
            c = a.copy()
            first = dg(c)
            c[0] += 1.0              # mutating the copy must not reach the original (state digest of the next event)
            d = a.copy()
            alias = d
            d += np.full(a.COMPACT_DIMENSIONALITY, 0.25)      # `+=` rebinds the name: the object it was bound to is an operand and stays as it was
            self.ok = dg(alias) == dg(a) and d is not alias and first == dg(a) and type(c) is type(a)
            return dg(first, type(c).__name__)
        raise ValueError(q)

    # ---- flags ----
    def set_fixed(self, idx, flag):
        g = self.g
        # (the flag is whatever truthy / falsy value user code assigns: a bool, an int, a numpy bool or integer)
        self.edits += 1
        val = [bool(flag), int(bool(flag)), np.bool_(bool(flag)), np.int64(bool(flag))][self.edits % 4]
        g._vertices[(idx - 1) % len(g._vertices)].fixed = val
        self.emit({'op': 'SetFixed', 'idx': (idx - 1) % len(g._vertices) + 1, 'flag': bool(flag)}, g._vertices, g._edges)

    # ---- the user's own edits between calls (public attributes) ----
    def set_pose(self, idx):
        """Move a vertex (a new initial guess): alternately a NEW pose object is assigned, or the stored array is written in place."""
        g = self.g
        j = (idx - 1) % len(g._vertices)
        v = g._vertices[j]
        self.edits += 1
        d = 0.03125 * (1 + self.edits % 3)
        if self.edits % 2 or sum(1 for w in g._vertices if w.pose is v.pose) != 1:
            v.pose = v.pose + np.full(v.pose.COMPACT_DIMENSIONALITY, d)
        else:
            v.pose[0] += d
        self.emit({'op': 'SetPose', 'idx': j + 1}, g._vertices, g._edges)

    def set_meas(self, n):
        """Change a measurement: alternately the information matrix (scaled, new array), the estimate (new object) or the estimate in place."""
        g = self.g
        if not g._edges:
            self.emit({'op': 'SetMeas', 'idx': 0}, g._vertices, g._edges)
            return
        j = (n - 1) % len(g._edges)
        e = g._edges[j]
        self.edits += 1
        mode = self.edits % 3
        est = e.estimate
        if mode == 2 and sum(1 for f in g._edges if f.estimate is est) != 1:
            mode = 1            # (an estimate object shared by several edges is replaced, not written)
        if mode == 0 or est is None:
            e.information = np.asarray(e.information) * 2.0
        elif isinstance(est, BasePose):
            if mode == 1:
                e.estimate = est + np.full(est.COMPACT_DIMENSIONALITY, 0.0625)
            else:
                est[0] += 0.0625
        elif isinstance(est, np.ndarray) and est.dtype.kind == 'f' and est.size:
            if mode == 1:
                e.estimate = est + 0.0625
            else:
                est.flat[0] += 0.0625
        elif isinstance(est, float):
            e.estimate = est + 0.0625
        else:
            e.information = np.asarray(e.information) * 2.0
        self.emit({'op': 'SetMeas', 'idx': j + 1}, g._vertices, g._edges)

    @staticmethod
    def _all_expressible(g):
        """Every edge that has a writer can be expressed by the format: SE(2)/SE(3) odometry, SE(2) landmark edges with identity offset, SE(3)
        landmark edges whose offset id is registered with exactly that offset (G2O!EdgeExpressible / G2O!WellFormed on the numbers)."""
        from graphslam.pose.se2 import PoseSE2
        from graphslam.pose.se3 import PoseSE3
        reg = getattr(g, '_g2o_params', None) or {}
        # (non-finite numbers: whether a text format can carry them is left open - a refusal of such a graph is not judged)
        for v in g._vertices:
            if not np.all(np.isfinite(np.asarray(v.pose, dtype=float))):
                return False
        for e in g._edges:
            if type(e) in (EdgeOdometry, EdgeLandmark):
                for x in (e.information, e.estimate, getattr(e, 'offset', None)):
                    if x is not None and not np.all(np.isfinite(np.asarray(x, dtype=float))):
                        return False
        for e in g._edges:
            if type(e) is EdgeOdometry:
                if not isinstance(e.estimate, (PoseSE2, PoseSE3)):
                    return False
            elif type(e) is EdgeLandmark:
                if isinstance(e.offset, PoseSE2) and isinstance(e.vertices[0].pose, PoseSE2):
                    if np.any(np.asarray(e.offset)):
                        return False
                elif isinstance(e.offset, PoseSE3) and isinstance(e.vertices[0].pose, PoseSE3):
                    par = reg.get(('PARAMS_SE3OFFSET', e.offset_id))
                    val = getattr(par, 'value', None)
                    if e.offset_id is None or val is None or not np.array_equal(np.asarray(val), np.asarray(e.offset)):
                        return False
                else:
                    return False
        return True

    # ---- file round trip: the session continues on Graph.from_g2o(file written by to_g2o) ----
    def reload(self):
        g = self.g
        fd, path = tempfile.mkstemp(suffix='.g2o')
        os.close(fd)
        raised, g2 = False, None
        expressible = bool(self._all_expressible(g))
        try:
            g.to_g2o(path)
            g2 = Graph.from_g2o(path)
        except Exception:  # noqa  -- a refusal is an observation; the specification says when it is allowed
            raised = True
        finally:
            os.unlink(path)
        if raised:
            self.emit({'op': 'Reload', 'raised': True, 'expressible': expressible, 'bound': [], 'gidx': [], 'chi2Ok': True}, g._vertices, g._edges)
            return False
        # chi^2 of what the file carries: the original graph without the edges that have no writer (evaluated on the ORIGINAL objects)
        kept = [e for e in g._edges if type(e) in (EdgeOdometry, EdgeLandmark)]
        want = sum(float(e.calc_chi2()) for e in kept)
        got = float(g2.calc_chi2())
        chi_ok = bool((np.isnan(want) and np.isnan(got)) or abs(got - want) <= 1e-9 * (1e-300 + abs(want)) + 1e-18)
        bound = [[[j + 1 for j, w in enumerate(g2._vertices) if w is v][0] for v in e.vertices] for e in g2._edges]
        gidx = [int(v.gradient_index) if v.gradient_index is not None else -1 for v in g2._vertices]
        self.g = g2
        self.vs, self.es = g2._vertices, g2._edges
        self.emit({'op': 'Reload', 'raised': False, 'expressible': expressible, 'bound': bound, 'gidx': gidx, 'chi2Ok': chi_ok}, g2._vertices, g2._edges,
                  {'chi2_before': want, 'chi2_after': got})
        return True

    # ---- optimize ----
    def optimize(self, max_iter, fix_first, verbose, tol, split=None, twin=True):
        try:
            # (the interpreter's DEFAULT warning filters are in force during the calls -- not the harness's blanket "ignore" --: what the library
            #  does must not depend on whether a warning was already shown once; the text goes to a buffer)
            with warnings.catch_warnings():
                warnings.resetwarnings()
                with contextlib.redirect_stderr(io.StringIO()):
                    return self._optimize(max_iter, fix_first, verbose, tol, split, twin)
        except Exception as ex:  # noqa  -- an exception escaping the library is an observation, not a failure of the harness
            g = self.g
            rep = {'numIter': -1, 'converged': False, 'lenResults': -1, 'lastComplete': False, 'rows': -1, 'initialOk': False, 'finalOk': False,
                   'chi2sOk': False, 'finalIsChi2': False, 'appliedSet': [-1], 'verboseOk': True, 'splitOk': True, 'freshOk': True, 'freshPosesOk': True, 'strRows': -1, 'strHeaderOk': False}
            self.emit({'op': 'OptCall', 'maxIter': int(max_iter), 'fixFirst': bool(fix_first), 'verbose': bool(verbose), 'cls': ['F'] * int(max_iter), 'rep': rep,
                       'raised': True}, g._vertices, g._edges,
                      {'chi2s': [], 'report': {}, 'nan': False, 'was_fixed': [], 'tol': tol, 'isolated_fixed': [], 'exception': repr(ex)})
            return None

    # ---- optimize() cut short by a failing user-defined edge (GraphSLAM!OptAbort) ----
    def optimize_abort(self, max_iter, fix_first, k):
        g = self.g
        fault = [e for e in g._edges if getattr(e, 'is_fault', False)]
        if not fault:
            return self.optimize(max_iter, fix_first, False, 0.0, twin=False)      # (a graph without such an edge: an ordinary call)
        fault = fault[0]
        m = int(max_iter)
        k = 1 + (int(k) - 1) % m
        # independent observation: the states after 0 .. k-1 complete iterations (single-iteration calls on a deep copy, edge disarmed)
        c = copy.deepcopy(g)
        digs = []
        with contextlib.redirect_stdout(io.StringIO()), warnings.catch_warnings():
            warnings.simplefilter('ignore')
            for j in range(k):
                digs.append(pose_digests(c))
                if j < k - 1:
                    c.optimize(tol=0.0, max_iter=1, fix_first_pose=fix_first, verbose=False)
        fault.budget, fault.calls = k - 1, 0
        raised, exc = False, None
        try:
            with contextlib.redirect_stdout(io.StringIO()), warnings.catch_warnings():
                warnings.simplefilter('ignore')
                g.optimize(tol=0.0, max_iter=m, fix_first_pose=fix_first, verbose=False)
        except Exception as ex:  # noqa
            raised, exc = True, type(ex).__name__
        finally:
            fault.budget, fault.calls = None, 0
        after = pose_digests(g)
        applied = [j for j in range(k) if digs[j] == after]
        self.emit({'op': 'OptAbort', 'maxIter': m, 'fixFirst': bool(fix_first), 'failAt': k, 'raised': raised, 'applied': applied[-1] if applied else -1},
                  g._vertices, g._edges, {'exception': exc, 'nan': bool(any(np.any(np.isnan(np.asarray(v.pose))) for v in g._vertices))})

    def optimize_zero(self, fix_first):
        """optimize(max_iter=0) (R7, DESIGN.md 9.3 / 9.6): today the call sets the first flag and then fails on its empty iteration list (IndexError).  In
        terms of the specification that is GraphSLAM!OptAbort with zero complete iterations; a library that returns a report instead shows up as a
        rejection of `abort-raised` only (a beyond-the-list note), while flags / poses / edges are held to the same frame either way."""
        g = self.g
        before = pose_digests(g)
        raised, exc = False, None
        try:
            with contextlib.redirect_stdout(io.StringIO()):
                g.optimize(max_iter=0, fix_first_pose=fix_first, verbose=False)
        except Exception as ex:  # noqa
            raised, exc = True, type(ex).__name__
        self.emit({'op': 'OptAbort', 'maxIter': 0, 'fixFirst': bool(fix_first), 'failAt': 1, 'raised': raised, 'applied': 0 if pose_digests(g) == before else -1},
                  g._vertices, g._edges, {'exception': exc, 'nan': False})

    @staticmethod
    def _str_report(ret):
        """str(OptimizationResult): one table row per complete iteration; header repeats converged / iterations."""
        try:
            lines = str(ret).splitlines()
            sep = [i for i, ln in enumerate(lines) if ln.startswith('---------')][0]
            rows = [ln for ln in lines[sep + 1:] if ln.strip()]
            ok = ('Converged = %s' % ret.converged) in lines and ('Iterations = %s' % ret.num_iterations) in lines
            ok = ok and all(int(ln.split()[0]) == i + 1 for i, ln in enumerate(rows))
            return {'strRows': len(rows), 'strHeaderOk': bool(ok)}
        except Exception:  # noqa
            return {'strRows': -1, 'strHeaderOk': False}

    def _optimize(self, max_iter, fix_first, verbose, tol, split=None, twin=True):
        g = self.g
        m = int(max_iter)
        # independent observation of the trajectory: single-iteration calls on a deep copy
        c = copy.deepcopy(g)
        chi2s, digs = [], []
        was_fixed = [bool(v.fixed) for v in g._vertices]
        for k in range(m + 1):
            chi2s.append(float(c.calc_chi2()))
            digs.append(pose_digests(c))
            if k < m:
                with contextlib.redirect_stdout(io.StringIO()):
                    c.optimize(tol=0.0, max_iter=1, fix_first_pose=fix_first, verbose=False)
        cls = []
        for k in range(1, m + 1):
            prev, cur = chi2s[k - 1], chi2s[k]
            rel = (prev - cur) / (prev + EPS)
            if np.isnan(prev) or np.isnan(cur):
                cls.append('F')
                continue
            stop = (cur <= prev) and (rel < tol)
            amb = (tol != 0.0 and abs(rel - tol) <= 1e-9 * abs(tol)) or (cur != prev and abs(cur - prev) <= 4 * EPS * abs(prev))
            cls.append('A' if amb else ('T' if stop else 'F'))
        twin_g = copy.deepcopy(g) if twin else None
        fresh_g = None
        if self.fresh:
            try:
                fresh_g = fresh_clone(g)
            except Exception:  # noqa  (the rebuilt graph could not be made: the comparison is unavailable, which is not a verdict)
                self.fresh_unavailable += 1
        split_g = copy.deepcopy(g) if split else None
        buf = io.StringIO()
        with contextlib.redirect_stdout(buf):
            # (the recorded call passes its arguments by position every other time: the parameter order is part of the public signature)
            ret = g.optimize(tol, m, fix_first, verbose) if self.seq % 2 else g.optimize(tol=tol, max_iter=m, fix_first_pose=fix_first, verbose=verbose)
        out = buf.getvalue()
        rows = len([ln for ln in out.splitlines() if re.match(r'^\s*\d+\s+\S', ln)]) if verbose else -1
        n = ret.num_iterations
        after = pose_digests(g)
        rep = {
            'numIter': int(n) if n is not None else -1, 'converged': bool(ret.converged), 'lenResults': len(ret.iteration_results),
            'lastComplete': bool(ret.iteration_results[-1].is_complete_iteration()) if ret.iteration_results else False,
            'rows': rows,
            'initialOk': same(ret.initial_chi2, chi2s[0]),
            'finalOk': n is not None and 0 <= n <= m and same(ret.final_chi2, chi2s[n]),
            'chi2sOk': n is not None and 0 <= n <= m and all(same(ret.iteration_results[j].chi2, chi2s[j + 1]) for j in range(min(n, len(ret.iteration_results)))),
            'finalIsChi2': same(ret.final_chi2, g.calc_chi2()),
            'appliedSet': [k for k in range(m + 1) if digs[k] == after] or [-1],
            'verboseOk': True, 'splitOk': True,
        }
        rep.update(self._str_report(ret))
        detail = {'chi2s': chi2s, 'report': {'initial': ret.initial_chi2, 'final': ret.final_chi2, 'iter_chi2': [ir.chi2 for ir in ret.iteration_results]},
                  'nan': bool(any(np.any(np.isnan(np.asarray(v.pose))) for v in g._vertices)),
                  'was_fixed': was_fixed, 'tol': tol,
                  'isolated_fixed': [bool(v.fixed) and not any(v in e.vertices for e in g._edges) for v in g._vertices]}
        rep['freshOk'] = True
        rep['freshPosesOk'] = True
        r4 = None
        if fresh_g is not None:
            # the same call on a graph built from scratch out of the numbers the recorded graph had before the call
            try:
                with contextlib.redirect_stdout(io.StringIO()):
                    r4 = fresh_g.optimize(tol=tol, max_iter=m, fix_first_pose=fix_first, verbose=False)
            except Exception:  # noqa
                r4 = None
                self.fresh_unavailable += 1
        if fresh_g is not None and r4 is not None:
            rep['freshPosesOk'] = bool(pose_digests(fresh_g) == after)
            rep['freshOk'] = bool(rep['freshPosesOk'] and r4.num_iterations == ret.num_iterations and r4.converged == ret.converged
                                  and same(r4.final_chi2, ret.final_chi2) and same(r4.initial_chi2, ret.initial_chi2)
                                  and len(r4.iteration_results) == len(ret.iteration_results))
        if twin:
            with contextlib.redirect_stdout(io.StringIO()):
                r2 = twin_g.optimize(tol=tol, max_iter=m, fix_first_pose=fix_first, verbose=not verbose)
            rep['verboseOk'] = bool(pose_digests(twin_g) == after and r2.num_iterations == ret.num_iterations and r2.converged == ret.converged
                                    and same(r2.final_chi2, ret.final_chi2) and same(r2.initial_chi2, ret.initial_chi2)
                                    and len(r2.iteration_results) == len(ret.iteration_results))
        if split and n == m and sum(split) == m and not any(x == 'T' or x == 'A' for x in cls[:m - 1]):
            # the single call performed m iterations: the same run as consecutive calls must reproduce it
            with contextlib.redirect_stdout(io.StringIO()):
                for part in split:
                    r3 = split_g.optimize(tol=tol, max_iter=part, fix_first_pose=fix_first, verbose=False)
            rep['splitOk'] = bool(pose_digests(split_g) == after and r3.converged == ret.converged and same(r3.final_chi2, ret.final_chi2))
            detail['split'] = list(split)
        self.emit({'op': 'OptCall', 'maxIter': m, 'fixFirst': bool(fix_first), 'verbose': bool(verbose), 'cls': cls, 'rep': rep, 'raised': False},
                  g._vertices, g._edges, detail)
        return ret
