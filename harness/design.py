"""Designed lattice optima (C05): consistent and symmetric-noise pose graphs over the closed groups C4 / Hurwitz units.

The integer arithmetic here only PROPOSES measurements; TLC evaluates the exact model at the proposed ground truth and the proposal is
used only if the specification says chi^2 / the gradient are exactly what the design intends (zero residual, resp. stationary)."""
import random

from . import build as B
from . import edgecases as EC


def _num2(q):     # Hurwitz quaternion -> numerators over 2
    f = 2 // q[4]
    return [q[0] * f, q[1] * f, q[2] * f, q[3] * f]


def _from2(n):
    if all(x % 2 == 0 for x in n):
        return (n[0] // 2, n[1] // 2, n[2] // 2, n[3] // 2, 1)
    return (n[0], n[1], n[2], n[3], 2)


def hmul(p, q):
    a, b = _num2(p), _num2(q)
    x = a[3] * b[0] + a[0] * b[3] + a[1] * b[2] - a[2] * b[1]
    y = a[3] * b[1] - a[0] * b[2] + a[1] * b[3] + a[2] * b[0]
    z = a[3] * b[2] + a[0] * b[1] - a[1] * b[0] + a[2] * b[3]
    w = a[3] * b[3] - a[0] * b[0] - a[1] * b[1] - a[2] * b[2]
    n = [x, y, z, w]                       # numerators over 4
    assert all(v % 2 == 0 for v in n)
    return _from2([v // 2 for v in n])


def hconj(q):
    return (-q[0], -q[1], -q[2], q[3], q[4])


def hrot(q, v):
    a = _num2(q)
    # q (v,0) q*  with numerators over 2 -> result over 4 (exact for Hurwitz units: signed permutation matrices)
    t = [a[3] * v[0] + a[1] * v[2] - a[2] * v[1], a[3] * v[1] - a[0] * v[2] + a[2] * v[0], a[3] * v[2] + a[0] * v[1] - a[1] * v[0], -a[0] * v[0] - a[1] * v[1] - a[2] * v[2]]
    c = [-a[0], -a[1], -a[2], a[3]]
    r = [t[3] * c[0] + t[0] * c[3] + t[1] * c[2] - t[2] * c[1], t[3] * c[1] - t[0] * c[2] + t[1] * c[3] + t[2] * c[0], t[3] * c[2] + t[0] * c[1] - t[1] * c[0] + t[2] * c[3]]
    assert all(x % 4 == 0 for x in r)
    return [x // 4 for x in r]


def cmul(p, q):
    return (p[0] * q[0] - p[1] * q[1], p[1] * q[0] + p[0] * q[1], 1)


def cconj(p):
    return (p[0], -p[1], 1)


def crot(p, v):
    return [p[0] * v[0] - p[1] * v[1], p[1] * v[0] + p[0] * v[1]]


class Grp:
    def __init__(self, kind):
        self.kind = kind
        self.se3 = kind == 'SE3'
        self.rn = kind in ('R2', 'R3')

    def mul(self, a, b):
        return () if self.rn else (hmul(a, b) if self.se3 else cmul(a, b))

    def inv(self, a):
        return () if self.rn else (hconj(a) if self.se3 else cconj(a))

    def rot(self, a, v):
        return list(v) if self.rn else (hrot(a, v) if self.se3 else crot(a, v))

    def rnd(self, rnd):
        return () if self.rn else (rnd.choice(B.HURWITZ) if self.se3 else rnd.choice(B.C4))

    def rel(self, p1, p2):
        """p1^-1 (+) p2 for poses (t, r)."""
        ri = self.inv(p1[1])
        return (self.rot(ri, [b - a for a, b in zip(p1[0], p2[0])]), self.mul(ri, p2[1]))

    def comp(self, p1, p2):
        return ([a + b for a, b in zip(p1[0], self.rot(p1[1], p2[0]))], self.mul(p1[1], p2[1]))


def gen_design(rnd, kind, n_poses, n_lm, closures, noisy):
    """A lattice graph whose listed vertex values ARE the intended optimum. Returns the case (Assembly format)."""
    G = Grp(kind)
    d = B.DIM[kind]
    pk = 'R2' if d == 2 else 'R3'
    step = lambda: [rnd.randint(-3, 3) for _ in range(d)]      # noqa  (edge lengths <= ~4 units)
    poses = [([0] * d, G.rnd(rnd))]
    for _ in range(n_poses - 1):
        poses.append(G.comp(poses[-1], (step(), G.rnd(rnd))))
    lms = [[a + b for a, b in zip(rnd.choice(poses)[0], step())] for _ in range(n_lm)]
    verts = [dict(k=kind, t=list(p[0]), r=list(p[1]), fixed=False) for p in poses] + [dict(k=pk, t=list(l), r=[], fixed=False) for l in lms]
    edges = []
    cd = B.CDIM[kind]

    def spd(n):
        return rnd.choice([EC.W_id, EC.W_diag, EC.W_cross, EC.W_cross2, EC.W_cross3])(n)

    def iso(n):
        a = rnd.choice([1, 2, 4])
        return [[(a if i < d else (i + 1)) if i == j else 0 for j in range(n)] for i in range(n)]

    def odo(a, b, W, noise=None):
        z = G.rel(poses[a], poses[b])
        tz = list(z[0]) if noise is None else [x + y for x, y in zip(z[0], noise)]
        edges.append(dict(cls='odo', vs=[a + 1, b + 1], tz=tz, rz=list(z[1]), toff=[], roff=[], W=W))
    for j in range(n_poses - 1):
        a, b = (j, j + 1) if rnd.random() < 0.5 else (j + 1, j)
        odo(a, b, spd(cd))
    for _ in range(closures):
        a, b = rnd.sample(range(n_poses), 2)
        odo(a, b, spd(cd))
    for j, l in enumerate(lms):
        for a in rnd.sample(range(n_poses), min(2, n_poses)):
            off = (step() if rnd.random() < 0.7 else [0] * d, G.rnd(rnd))       # (also pure-rotation offsets: zero translation, rotated)
            po = G.comp(poses[a], off)
            z = G.rot(G.inv(po[1]), [x - y for x, y in zip(l, po[0])])
            edges.append(dict(cls='lm', vs=[a + 1, n_poses + j + 1], tz=z, rz=[], toff=list(off[0]), roff=list(off[1]), W=spd(d)))
    if noisy:
        # symmetric noise: pairs of parallel edges whose measurement noise cancels in the gradient
        for _ in range(rnd.randint(1, 3)):
            a, b = rnd.sample(range(n_poses), 2)
            n = [rnd.choice([-1, 1]) * rnd.choice([0, 1]) for _ in range(d)]
            if not any(n):
                n[0] = 1
            W = iso(cd)
            odo(a, b, W, n)
            odo(a, b, W, [-x for x in n])
        if lms:
            j = rnd.randrange(len(lms))
            a = rnd.randrange(n_poses)
            off = (step(), G.rnd(rnd))
            po = G.comp(poses[a], off)
            z = G.rot(G.inv(po[1]), [x - y for x, y in zip(lms[j], po[0])])
            n = [rnd.choice([-1, 0, 1]) for _ in range(d)]
            if not any(n):
                n[-1] = 1
            W = spd(d)
            for sg in (1, -1):
                edges.append(dict(cls='lm', vs=[a + 1, n_poses + j + 1], tz=[x + sg * y for x, y in zip(z, n)], rz=[], toff=list(off[0]), roff=list(off[1]), W=W))
    # consistent range measurements (a user-defined edge type that inherits the numerical Jacobians): between vertices whose separation at the
    # ground truth is a non-zero integer, measured exactly -- zero residual, so the ground truth stays stationary
    pos = [list(p[0]) for p in poses] + [list(l) for l in lms]
    pairs = []
    for i in range(len(pos)):
        for j in range(i + 1, len(pos)):
            d2 = sum((x - y) ** 2 for x, y in zip(pos[i], pos[j]))
            r = int(round(d2 ** 0.5))
            if d2 > 0 and r * r == d2:
                pairs.append((i, j, r))
    rnd.shuffle(pairs)
    for i, j, r in pairs[:rnd.randint(0, 2)]:
        i, j = (i, j) if rnd.random() < 0.5 else (j, i)
        edges.append(dict(cls='range', vs=[i + 1, j + 1], tz=[r], rz=[], toff=[], roff=[], W=[[rnd.choice([1, 2, 4])]]))
    # some landmarks are held fixed at their true position (this does not move the optimum of the others)
    if n_lm >= 2 and rnd.random() < 0.6:
        verts[n_poses + rnd.randrange(n_lm - 1)]['fixed'] = True
    return dict(fixFirst=True, verts=verts, edges=edges, gradOnly=True, conv='canon', noisy=bool(noisy))
