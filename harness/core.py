"""Check runner core: verdict bookkeeping, known findings, evidence files, exit codes."""
import json
import os
import contextlib
import sys
import time
import traceback

ROOT = os.path.dirname(os.path.dirname(os.path.abspath(__file__)))
EVID = os.path.join(ROOT, 'evidence')
REPLAY = os.path.join(EVID, 'replay')
KNOWN = os.path.join(ROOT, 'known_findings.json')


def _jsonable(x):
    from fractions import Fraction
    import numpy as np
    if isinstance(x, Fraction):
        return str(x)
    if isinstance(x, (np.floating,)):
        return float(x)
    if isinstance(x, (np.integer,)):
        return int(x)
    if isinstance(x, np.ndarray):
        return x.tolist()
    if isinstance(x, (set, frozenset, tuple)):
        return list(x)
    if isinstance(x, bytes):
        return x.hex()
    return repr(x)


@contextlib.contextmanager
def library_debug_logging(on=True):
    """Interpreter-state dimension: the library's loggers at DEBUG level (records go to a NullHandler).  What the library computes must not
    depend on whether somebody listens to its log."""
    import logging
    lg = logging.getLogger('graphslam')
    old, h = lg.level, logging.NullHandler()
    if on:
        lg.setLevel(logging.DEBUG)
        lg.addHandler(h)
    try:
        yield
    finally:
        if on:
            lg.setLevel(old)
            lg.removeHandler(h)


class Run:
    """One invocation of one check."""

    def __init__(self, pid, tier, seed):
        self.pid, self.tier, self.seed = pid, tier, seed
        self.t0 = time.time()
        self.states = 0
        self.transitions = 0
        self.replayed = 0           # spec states / behaviours / sessions validated against the implementation
        self.evaluations = 0
        self.nontrivial = set()
        self.nontrivial_count = 0
        self.samples = []
        self.violations = []        # (key, message, replay_path)
        self.known_hits = {}        # finding id -> count
        self.notes = {}             # extra coverage keys
        self.assumptions = []
        self.rule = ''
        self.exhaustive = False
        self.tlc_runs = []
        self.max_dev = 0.0
        self.skipped = {}
        self._known = [k for k in self._load_known() if k.get('property') == pid and k.get('status', 'open') == 'open']
        self._nrep = 0
        self.vclasses = {}

    @staticmethod
    def _load_known():
        if not os.path.exists(KNOWN):
            return []
        with open(KNOWN) as f:
            return json.load(f).get('findings', [])

    # ---- bookkeeping ----
    def add_tlc(self, res, name):
        self.states += res.distinct
        self.transitions += res.generated
        self.tlc_runs.append({'model': name, 'states_generated': res.generated, 'distinct': res.distinct, 'depth': res.depth,
                              'wall_s': round(res.wall, 2)})

    def sample(self, s, limit=6):
        if len(self.samples) < limit:
            self.samples.append(s)

    def skip(self, why, n=1):
        self.skipped[why] = self.skipped.get(why, 0) + n

    def dev(self, d):
        if d > self.max_dev:
            self.max_dev = float(d)

    def count(self, key=None, nontrivial=True):
        """count one evaluated case; key (hashable) identifies distinct non-trivial cases"""
        self.evaluations += 1
        if nontrivial:
            if key is None:
                self.nontrivial_count += 1
            else:
                self.nontrivial.add(key)

    def violation(self, key, message, case=None):
        """key: dict describing the failing case (matched against known findings)."""
        for k in self._known:
            if all(key.get(a) == b for a, b in k['key'].items()):
                kid = k.get('id', k['what'])
                if kid not in self.known_hits:
                    self.known_hits[kid] = {'count': 0, 'what': k['what'], 'first': {'key': key, 'message': message}}
                self.known_hits[kid]['count'] += 1
                return False
        kk = json.dumps(key, sort_keys=True, default=_jsonable)
        self.vclasses[kk] = self.vclasses.get(kk, 0) + 1
        if len(self.violations) < 25 or self.vclasses[kk] == 1:
            os.makedirs(REPLAY, exist_ok=True)
            self._nrep += 1
            path = os.path.join(REPLAY, '%s-%03d.json' % (self.pid, self._nrep))
            with open(path, 'w') as f:
                json.dump({'property': self.pid, 'key': key, 'message': message, 'case': case, 'seed': self.seed, 'tier': self.tier},
                          f, indent=1, default=_jsonable)
            self.violations.append((key, message, path))
        else:
            self.violations.append((key, message, self.violations[0][2]))
        return True

    # ---- finish ----
    def finish(self):
        wall = time.time() - self.t0
        dn = len(self.nontrivial) + self.nontrivial_count
        cov = {
            'states': int(self.states), 'transitions': int(self.transitions),
            'traces_validated_against_impl': int(self.replayed),
            'samples': self.samples if self.samples else ['(no sample recorded)'],
            'evaluations': int(self.evaluations), 'distinct_nontrivial': int(dn), 'rule': self.rule,
            'exhaustive': bool(self.exhaustive), 'tlc_runs': self.tlc_runs, 'max_deviation': self.max_dev,
            'skipped': self.skipped, 'violation_classes': self.vclasses, 'known_findings_observed': {k: v['count'] for k, v in self.known_hits.items()},
        }
        cov.update(self.notes)
        gc_mod = sys.modules.get('harness.graphcases')
        if gc_mod is not None and getattr(gc_mod, 'PROV_COUNTS', None):
            cov['graph_provenance'] = dict(gc_mod.PROV_COUNTS)          # how the real graphs were obtained (direct / deepcopy / pickle / .g2o file)
        ev = {'property_id': self.pid, 'tier': self.tier, 'seed': int(self.seed), 'level': 'model_checking', 'coverage': cov,
              'assumptions': self.assumptions, 'wall_s': round(wall, 2), 'violations': len(self.violations)}
        os.makedirs(EVID, exist_ok=True)
        # (a single-case replay describes one case, not a run of the check: its evidence goes next to the replay files and leaves the
        #  evidence of the last full run alone)
        target = os.path.join(EVID, self.pid + '.json')
        if getattr(self, 'single_case_replay', False):
            os.makedirs(REPLAY, exist_ok=True)
            target = os.path.join(REPLAY, self.pid + '-replay-evidence.json')
        with open(target, 'w') as f:
            json.dump(ev, f, indent=1, default=_jsonable)
        for kid, v in self.known_hits.items():
            print('KNOWN-FINDING: property=%s %s (observed %d times, e.g. %s)' % (self.pid, v['what'], v['count'],
                                                                                  json.dumps(v['first']['key'], default=_jsonable)))
        for kk, n in sorted(self.vclasses.items(), key=lambda kv: -kv[1])[:40]:
            print('   violation class x%d: %s' % (n, kk))
        for key, msg, path in self.violations[:25]:
            print('VIOLATION property=%s replay=%s' % (self.pid, path))
            print('   ' + msg[:260])
        print('%s tier=%s seed=%d: states=%d replayed=%d evaluations=%d nontrivial=%d violations=%d known=%d max_dev=%.3g wall=%.1fs' % (
            self.pid, self.tier, self.seed, self.states, self.replayed, self.evaluations, dn, len(self.violations),
            sum(v['count'] for v in self.known_hits.values()), self.max_dev, wall))
        return 1 if self.violations else 0


def main(argv=None):
    import argparse
    import importlib
    ap = argparse.ArgumentParser()
    ap.add_argument('pid')
    ap.add_argument('--tier', default=os.environ.get('VERIF_TIER', 'quick'))
    ap.add_argument('--replay', default=None)
    ap.add_argument('--seed', type=int, default=None)
    a = ap.parse_args(argv)
    seed = a.seed if a.seed is not None else int(os.environ.get('VERIF_SEED', '0') or 0)
    tier = a.tier if a.tier in ('quick', 'thorough') else 'quick'
    pid = a.pid.upper()
    run = None
    try:
        mod = importlib.import_module('harness.checks.%s' % pid.lower())
        run = Run(pid, tier, seed)
        if a.replay:
            with open(a.replay) as f:
                rep = json.load(f)
            try:
                run.single_case_replay = True
                mod.replay(run, rep)
            except (KeyError, TypeError, IndexError) as ex:
                if any((os.sep + 'graphslam' + os.sep) in fr.filename and (os.sep + 'harness' + os.sep) not in fr.filename for fr in traceback.extract_tb(ex.__traceback__)):
                    raise
                # the file describes a violation found by a part of the check that has no single-case replay (a monitor, a recorded session, a
                # fixture): the whole check is run again with the seed and tier of the run that wrote the file
                print('   (no single-case replay for this kind of violation: re-running the check with seed %s, tier %s)' % (rep.get('seed', seed), rep.get('tier', tier)))
                run = Run(pid, rep.get('tier', tier) if rep.get('tier') in ('quick', 'thorough') else tier, int(rep.get('seed', seed) or 0))
                mod.check(run)
        else:
            # the replay files of a run describe THAT run: those of earlier runs of this property are removed first
            import glob
            for old in glob.glob(os.path.join(REPLAY, '%s-*.json' % pid)):
                try:
                    os.unlink(old)
                except OSError:
                    pass
            mod.check(run)
        rc = run.finish()
    except Exception as e:
        traceback.print_exc()
        frames = traceback.extract_tb(e.__traceback__)
        lib = [f for f in frames if (os.sep + 'graphslam' + os.sep) in f.filename and (os.sep + 'harness' + os.sep) not in f.filename]
        if lib and not isinstance(e, (MemoryError, RecursionError)):
            # The exception was raised INSIDE the library on input that the unchanged library handles (every check passes on the unchanged tree
            # without reaching this handler): that is the library's behaviour, hence a verdict -- not a failure of the machinery.
            msg = 'the library raised %s at %s:%d (%s) while the check was running' % (type(e).__name__, os.path.basename(lib[-1].filename), lib[-1].lineno, str(e)[:200])
            try:
                run.violation({'outcome': 'library-exception', 'exception': type(e).__name__}, msg, {'traceback': traceback.format_exc()[-4000:]})
                run.notes['aborted_by_library_exception'] = True
                run.finish()                      # writes the evidence file and prints the VIOLATION line(s)
            except Exception:  # noqa  (evidence could not be written: still a verdict)
                os.makedirs(REPLAY, exist_ok=True)
                path = os.path.join(REPLAY, '%s-exception.json' % pid)
                with open(path, 'w') as f:
                    json.dump({'property': pid, 'key': {'outcome': 'library-exception'}, 'message': msg, 'traceback': traceback.format_exc()[-4000:]}, f, indent=1)
                print('   ' + msg)
                print('VIOLATION property=%s replay=%s' % (pid, path))
            sys.exit(1)
        print('MACHINERY-FAILURE property=%s %s' % (pid, str(e)[:300]))   # machinery failure
        sys.exit(2)
    sys.exit(rc)


if __name__ == '__main__':
    main()
