---------------------------- MODULE Lattice ----------------------------
(* Finite sets of exactly representable inputs: rational points of the circle and of  *)
(* the unit 3-sphere, integer translations, integer information matrices.             *)
EXTENDS Integers, Sequences, FiniteSets, TLC

Signs == {-1, 1}
\* ---- unit quaternions <<x,y,z,w,den>> ----
SignedPerms4(v, den) ==
  { << s[1]*v[p[1]], s[2]*v[p[2]], s[3]*v[p[3]], s[4]*v[p[4]], den >> :
       p \in Permutations(1..4), s \in [1..4 -> Signs] }
HurwitzUnits == SignedPerms4(<<1,0,0,0>>, 1)              \* 8: +-1, +-i, +-j, +-k
HurwitzHalf  == SignedPerms4(<<1,1,1,1>>, 2)              \* 16
Hurwitz == HurwitzUnits \cup HurwitzHalf                   \* the 24 Hurwitz units (closed under product)
Q3  == SignedPerms4(<<1,2,2,0>>, 3)                        \* 96, includes w = 0 and w < 0
Q5a == SignedPerms4(<<0,0,3,4>>, 5)                        \* 48
Q5b == SignedPerms4(<<1,2,2,4>>, 5)                        \* 192
Q7  == SignedPerms4(<<2,3,6,0>>, 7)                        \* 192
\* small rotations about each axis, both signs of w, and rotations by almost 180 degrees
QSmall == { q \in SignedPerms4(<<40,0,0,399>>, 401) : q[4] \in {399,-399} }
          \cup { q \in SignedPerms4(<<20,0,0,99>>, 101) : q[4] \in {99,-99} }
QNearPi == { q \in SignedPerms4(<<40,0,0,399>>, 401) : q[4] \in {40,-40} }
UQ == Hurwitz \cup Q3 \cup Q5a \cup Q5b \cup Q7 \cup QSmall \cup QNearPi
QIdent == <<0,0,0,1,1>>

\* ---- planar rotations <<c,s,den>> ----
SignedPerms2(a, b, den) == { <<sa*a, sb*b, den>> : sa \in Signs, sb \in Signs } \cup { <<sb*b, sa*a, den>> : sa \in Signs, sb \in Signs }
C4 == SignedPerms2(1, 0, 1)
Py5 == SignedPerms2(3, 4, 5)
Py13 == SignedPerms2(5, 12, 13)
Py401 == { <<c*399, s*40, 401>> : c \in Signs, s \in Signs }      \* either side of 0 and of +-pi
Rot2All == C4 \cup Py5 \cup Py13 \cup Py401
R2Ident == <<1,0,1>>

\* ---- information matrices (integer, symmetric) ----
IdM(n) == [i \in 1..n |-> [j \in 1..n |-> IF i = j THEN 1 ELSE 0]]
DiagM(n) == [i \in 1..n |-> [j \in 1..n |-> IF i = j THEN i ELSE 0]]
CrossM(n) == [i \in 1..n |-> [j \in 1..n |-> IF i = j THEN n + 2 ELSE 1]]                       \* SPD, every cross term
Cross2M(n) == [i \in 1..n |-> [j \in 1..n |-> IF i = j THEN 2*n ELSE IF (i + j) % 2 = 0 THEN 1 ELSE -1]]   \* SPD, signed cross terms
Cross3M(n) == [i \in 1..n |-> [j \in 1..n |-> IF i = j THEN 3*n + i ELSE IF i < j THEN i - j ELSE j - i]]   \* SPD (diagonally dominant for n <= 6)
IllM(n) == [i \in 1..n |-> [j \in 1..n |-> IF i = j THEN (IF i = 2 THEN 10000 ELSE 1) ELSE 0]]
OnesM(n) == [i \in 1..n |-> [j \in 1..n |-> 1]]                                                  \* PSD, rank 1
IndefM(n) == [i \in 1..n |-> [j \in 1..n |-> IF i = j THEN (IF i % 2 = 0 THEN -1 ELSE 2) ELSE IF i + j = n + 1 THEN 3 ELSE 0]]
InfoSPD(n) == {IdM(n), DiagM(n), CrossM(n), Cross2M(n), Cross3M(n), IllM(n)}
InfoAll(n) == InfoSPD(n) \cup {OnesM(n), IndefM(n)}

\* ---- translations ----
T2Small == { <<0,0>>, <<1,2>>, <<-3,1>>, <<2,-5>>, <<-4,-7>> }
T3Small == { <<0,0,0>>, <<1,2,3>>, <<-3,1,-2>>, <<2,-5,4>>, <<-4,-7,-1>> }
T2Large == { <<10000,-7000>>, <<-123,9999>> }
T3Large == { <<10000,-7000,300>>, <<-123,9999,-5000>> }
=========================================================================
