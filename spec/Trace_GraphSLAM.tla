---------------------------- MODULE Trace_GraphSLAM ----------------------------
(* Binding B: validation of recorded executions of the real library against the       *)
(* system specification.  The file trace.ndjson holds one event per public call       *)
(* (logged at return) of many sessions; every event carries the projected state after *)
(* the call.  For each event the primed variables are bound to the logged state and   *)
(* the corresponding GraphSLAM action is evaluated as a predicate on (state, state'). *)
(* The verdict is total: a mismatch prints <<"REJECT", sid, seq, clause>>, counts it, *)
(* and validation continues from the observed state so that the rest of the trace is  *)
(* still examined.                                                                    *)
EXTENDS GraphSLAM, Json
TraceLog == ndJsonDeserialize("trace.ndjson")
VARIABLES l, memo
tvars == <<vars, l, memo>>

Clause(ev, name, cond) == IF cond THEN TRUE ELSE PrintT(<<"REJECT", ev.sid, ev.seq, name>>) /\ TLCSet(1, TLCGet(1) + 1)
EmptyMemo == [k \in {} |-> "x"]

\* stop classes logged as "T" / "F" / "A" (ambiguous: within rounding of the threshold)
\* Some resolution of the ambiguous classes explains the report iff the one most favourable to the report does:
\* ambiguous iterations before the reported stop did not stop, the reported one did (early stop) / decided `converged` (limit).
Favourable(cls, r, m) == LET early == r.lenResults = r.numIter + 1 IN
  [k \in 1..Len(cls) |-> IF cls[k] = "T" THEN TRUE ELSE IF cls[k] = "F" THEN FALSE
                          ELSE (early /\ k = r.numIter) \/ (~early /\ k = m /\ r.converged)]
RepMatches(out, r) ==
  /\ r.numIter = out.numIter /\ r.converged = out.converged /\ r.lenResults = out.lenResults /\ r.lastComplete = out.lastComplete
  /\ (r.rows = -1 \/ r.rows = out.rows)
  /\ r.initialOk /\ r.finalOk /\ r.chi2sOk /\ r.finalIsChi2
  /\ out.applied \in { r.appliedSet[j] : j \in DOMAIN r.appliedSet }

\* the recorded state must have the shape the actions are defined on (same number of vertices; for a reload: the edges that have a writer);
\* tested FIRST in every clause that indexes by position, so that a recording of another shape is rejected, not a failure of the evaluation
Shape(ev) == Len(ev.verts) = Len(verts)
ReloadShape(ev) == Shape(ev) /\ (ev.raised \/ Len(ev.edges) = Len(Written(edges)))

TInit == Init /\ l = 1 /\ memo = EmptyMemo /\ TLCSet(1, 0) /\ TLCSet(2, 0)

Observe(ev) == verts' = ev.verts /\ edges' = ev.edges /\ obs' = [op |-> ev.op]

TConstruct(ev) ==
  /\ Observe(ev) /\ status' = IF ev.raised THEN "rejected" ELSE "ready"
  /\ memo' = EmptyMemo
  /\ Clause(ev, "construct-unique-ids", UniqueIds(ev.verts))
  /\ Clause(ev, "construct-verdict", Accepts(ev.verts, ev.edges) = ~ev.raised)
  /\ Clause(ev, "construct-gradient-index", ev.raised \/ \A j \in DOMAIN ev.verts : ev.gidx[j] = GradientIndex(ev.verts, j))
  /\ Clause(ev, "construct-binding", ev.raised \/ \A n \in DOMAIN ev.edges : ev.bound[n] = Bind2(ev.edges[n], ev.verts))

TQuery(ev) ==
  /\ Observe(ev) /\ status' = status
  /\ LET key == <<ev.q, ev.target>> IN
       /\ Clause(ev, "query-pure", Shape(ev) /\ QueryEffect(ev.q))
       /\ Clause(ev, "query-operands", ev.ok)
       /\ Clause(ev, "query-deterministic", key \in DOMAIN memo => memo[key] = ev.result)
       /\ Clause(ev, "query-fresh", ev.fresh = ev.result)                 \* same value on a graph rebuilt from the numbers of the abstract state
       /\ memo' = (key :> ev.result) @@ memo

TSetFixed(ev) ==
  /\ Observe(ev) /\ status' = status /\ memo' = memo
  /\ Clause(ev, "setfixed-frame", Shape(ev) /\ SetFixedEffect(ev.idx, ev.flag))

TOptCall(ev) ==
  /\ Observe(ev) /\ status' = status /\ memo' = EmptyMemo
  /\ Clause(ev, "opt-raised", ~ev.raised)
  /\ Clause(ev, "opt-effect", Shape(ev) /\ OptCallEffect(ev.maxIter, ev.fixFirst, [i \in DOMAIN ev.verts |-> ev.verts[i].pose]))
  /\ Clause(ev, "opt-report", RepMatches(Outcome(Favourable(ev.cls, ev.rep, ev.maxIter), 0, ev.maxIter), ev.rep))
  /\ Clause(ev, "opt-str", ev.raised \/ (ev.rep.strHeaderOk /\ ev.rep.strRows = Outcome(Favourable(ev.cls, ev.rep, ev.maxIter), 0, ev.maxIter).numIter))
  /\ Clause(ev, "opt-verbose", ev.rep.verboseOk)
  /\ Clause(ev, "opt-split", ev.rep.splitOk)
  /\ Clause(ev, "opt-fresh", ev.rep.freshOk)                              \* same outcome on a graph rebuilt from the numbers of the abstract state

\* a call cut short by a failing edge: the exception propagates; frame of OptCall; the poses are those after some number of COMPLETE iterations
TOptAbort(ev) ==
  /\ Observe(ev) /\ status' = status /\ memo' = EmptyMemo
  /\ Clause(ev, "abort-raised", ev.raised)
  /\ Clause(ev, "abort-effect", Shape(ev) /\ OptAbortEffect(ev.fixFirst, [i \in DOMAIN ev.verts |-> ev.verts[i].pose]))
  /\ Clause(ev, "abort-atomic", ev.applied >= 0 /\ ev.applied < ev.failAt)

\* the user's edits: exactly one pose token / one edge's number token changes; remembered query results are void
TSetPose(ev) ==
  /\ Observe(ev) /\ status' = status /\ memo' = EmptyMemo
  /\ Clause(ev, "setpose-frame", Shape(ev) /\ SetPoseEffect(ev.idx, ev.verts[ev.idx].pose))
TSetMeas(ev) ==
  /\ Observe(ev) /\ status' = status /\ memo' = EmptyMemo
  /\ Clause(ev, "setmeas-frame", Shape(ev) /\ (IF ev.idx = 0 THEN edges = <<>> /\ UNCHANGED <<verts, edges>>
                                                ELSE Len(ev.edges) = Len(edges) /\ SetMeasEffect(ev.idx, ev.edges[ev.idx].num)))

\* the call either refused (state unchanged) or the session continues on the re-imported graph, whose own binding is checked like a construction
TReload(ev) ==
  /\ Observe(ev) /\ status' = status /\ memo' = EmptyMemo
  /\ Clause(ev, "reload-effect", ReloadShape(ev) /\ \E keep \in BOOLEAN : ReloadEffect(ev.raised, keep, [i \in DOMAIN ev.verts |-> ev.verts[i].pose], [n \in DOMAIN ev.edges |-> ev.edges[n].num]))
  /\ Clause(ev, "reload-refusal", ev.raised => ~ev.expressible)          \* a graph the format can express (judged on the numbers: G2O!EdgeExpressible, registry) is not refused
  /\ Clause(ev, "reload-gradient-index", ev.raised \/ \A j \in DOMAIN ev.verts : ev.gidx[j] = GradientIndex(ev.verts, j))
  /\ Clause(ev, "reload-binding", ev.raised \/ \A n \in DOMAIN ev.edges : ev.bound[n] = Bind2(ev.edges[n], ev.verts))
  /\ Clause(ev, "reload-chi2", ev.raised \/ ev.chi2Ok)

TNext ==
  /\ l <= Len(TraceLog) /\ l' = l + 1
  /\ LET ev == TraceLog[l] IN
       CASE ev.op = "Construct" -> TConstruct(ev)
         [] ev.op = "Query" -> TQuery(ev)
         [] ev.op = "SetFixed" -> TSetFixed(ev)
         [] ev.op = "OptCall" -> TOptCall(ev)
         [] ev.op = "Reload" -> TReload(ev)
         [] ev.op = "OptAbort" -> TOptAbort(ev)
         [] ev.op = "SetPose" -> TSetPose(ev)
         [] ev.op = "SetMeas" -> TSetMeas(ev)
TSpec == TInit /\ [][TNext]_tvars

\* every line was consumed and no clause failed
TraceAccepted == TLCGet("stats").diameter - 1 = Len(TraceLog) /\ TLCGet(1) = 0
\* every line was consumed (verdicts are read from the REJECT lines)
TraceConsumed == TLCGet("stats").diameter - 1 = Len(TraceLog)
================================================================================
