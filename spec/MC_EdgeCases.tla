---------------------------- MODULE MC_EdgeCases ----------------------------
(* Evaluation of the edge models (error, Jacobian w.r.t. every boxplus direction of   *)
(* both vertices, chi^2 form) on a finite list of lattice cases read from a file.     *)
(* State: index of a case; phase 1 states carry the expected observation.             *)
EXTENDS Edge, Json
CaseSeq == ndJsonDeserialize("cases.ndjson")
VARIABLES phase, i, obs
vars == <<phase, i, obs>>

ZeroForm == [c0 |-> QI(0), c1 |-> QI(0), c2 |-> QI(0)]
EvalOdo(c) ==
  LET p1 == Lift(c.k, c.t1, c.r1)  p2 == Lift(c.k, c.t2, c.r2)  z == Lift(c.k, c.tz, c.rz)
      ej == OdoErrC(Pert(p1, 0), Pert(p2, CDim(p1.k)), z, "canon")
  IN [e |-> EOut(ej), J |-> JOut(ej), w |-> OdoErrW(p1, p2, z), chi2 |-> IF c.chi2 THEN Chi2Form(ej, c.W) ELSE ZeroForm,
      unit |-> UnitRot(p1) /\ UnitRot(p2) /\ (c.tiny \/ UnitRot(z))]        \* (tiny: z = (2n,0,0,n^2-1)/(n^2+1) is unit by construction; its square exceeds 32 bits)
EvalLm(c) ==
  LET p1 == Lift(c.k, c.t1, c.r1)  l == Lift(c.k2, c.t2, <<>>)  off == Lift(c.k, c.toff, c.roff)  z == Lift(c.k2, c.tz, <<>>)
      ej == LmErrJ(p1, l, off, z)
  IN [e |-> EOut(ej), J |-> JOut(ej), w |-> QI(1), chi2 |-> IF c.chi2 THEN Chi2Form(ej, c.W) ELSE ZeroForm, unit |-> UnitRot(p1) /\ UnitRot(off)]
Eval(c) == IF c.fam = "odo" THEN EvalOdo(c) ELSE EvalLm(c)

Init == phase = 0 /\ i \in 1..Len(CaseSeq) /\ obs = <<>>
Next == phase = 0 /\ phase' = 1 /\ i' = i /\ obs' = Eval(CaseSeq[i])
Spec == Init /\ [][Next]_vars

\* the inputs are on the lattice: every rotation operand has unit norm
InputsUnit == phase = 1 => obs.unit
\* design-level: chi^2 >= 0 whenever the information matrix is positive semi-definite (no angular atom involved)
Chi2NonNeg == phase = 1 /\ CaseSeq[i].psd /\ obs.chi2.c1 = <<0,1>> /\ obs.chi2.c2 = <<0,1>> => obs.chi2.c0[1] >= 0
=============================================================================
