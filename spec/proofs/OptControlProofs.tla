---------------------------- MODULE OptControlProofs ----------------------------
(* Machine-checked (TLAPS) inductive invariant of the optimizer's control skeleton,   *)
(* for EVERY bound MaxIter / MaxStart and every stop function.  TLC checks the same   *)
(* facts - and the whole report, OptControl!ReportCorrect - only up to MaxIter = 10.  *)
(*                                                                                    *)
(* In the words of property C12: whatever max_iter, tol and history, final_chi2 is    *)
(* the chi^2 of the state that is returned, and 1 <= num_iterations <= max_iter.      *)
EXTENDS OptLoop, TLAPS

ASSUME ConstAssumption == MaxIter \in Nat /\ MaxStart \in Nat

IInv ==
  /\ pc \in {"Loop", "Assemble", "Check", "Solve", "Update", "Final", "Ret", "Done"}
  /\ i \in Nat /\ maxIter \in Nat /\ maxIter >= 1 /\ i <= maxIter
  /\ (pc \in {"Assemble", "Check", "Solve", "Update"} => i < maxIter)
  /\ (pc \in {"Check", "Solve"} => chi2 = applied)
  /\ (pc \in {"Ret", "Done"} => final = applied /\ numIter \in Nat /\ numIter >= 1 /\ numIter <= maxIter)

THEOREM InitInv == Init => IInv
  BY ConstAssumption DEF Init, IInv

THEOREM NextInv == IInv /\ [Next]_vars => IInv'
<1> SUFFICES ASSUME IInv, [Next]_vars PROVE IInv'
  OBVIOUS
<1>1. CASE Loop BY <1>1 DEF IInv, Loop
<1>2. CASE Assemble BY <1>2 DEF IInv, Assemble
<1>3. CASE Check BY <1>3 DEF IInv, Check
<1>4. CASE Solve BY <1>4 DEF IInv, Solve
<1>5. CASE Update BY <1>5 DEF IInv, Update
<1>6. CASE Final BY <1>6 DEF IInv, Final
<1>7. CASE Ret BY <1>7 DEF IInv, Ret
<1>8. CASE Terminating BY <1>8 DEF IInv, Terminating, vars
<1>9. CASE UNCHANGED vars BY <1>9 DEF IInv, vars
<1> QED BY <1>1, <1>2, <1>3, <1>4, <1>5, <1>6, <1>7, <1>8, <1>9 DEF Next

THEOREM Safety == Spec => []IInv
<1>1. Init /\ [][Next]_vars => []IInv
  BY InitInv, NextInv, PTL
<1> QED BY <1>1 DEF Spec

FinalIsChi2OfReturnedState == pc = "Ret" => final = applied
IterationsWithinBound == pc = "Ret" => numIter >= 1 /\ numIter <= maxIter
THEOREM ReturnPoint == Spec => [](FinalIsChi2OfReturnedState /\ IterationsWithinBound)
<1>1. IInv => FinalIsChi2OfReturnedState /\ IterationsWithinBound
  BY DEF IInv, FinalIsChi2OfReturnedState, IterationsWithinBound
<1> QED BY <1>1, Safety, PTL
=================================================================================
