---------------------------- MODULE MC_PoseCases ----------------------------
(* Pose operations (C09) and the derivatives of the named operations (C10) evaluated  *)
(* on lattice cases read from a file, together with the group laws of the model       *)
(* itself (theorem T1/T2 of DESIGN.md): the oracle is checked to be a group before it *)
(* is used to judge the code.                                                         *)
EXTENDS Edge, Json
CaseSeq == ndJsonDeserialize("cases.ndjson")
VARIABLES phase, i, obs
vars == <<phase, i, obs>>

\* stored coordinates of a pose as differentiable components (SE(2) heading: angle atom with exact gradient)
Stored(p) == CASE p.k = "SE2" -> << p.t[1], p.t[2], [ang |-> <<QCanon(p.r[1].v), QCanon(p.r[2].v)>>, g |-> AngGrad(p.r)] >>
               [] p.k = "SE3" -> << p.t[1], p.t[2], p.t[3], p.r[1], p.r[2], p.r[3], p.r[4] >>
               [] OTHER -> p.t
PtPert(pt) == Vec([j \in 1..Len(pt) |-> pt[j] (+) DEps(j)])

Laws(a, b, c, pt) ==
  LET ab == Comp(a, b) IN
  [ homomorphism |-> MEqV(Mat(ab), MatMul(Mat(a), Mat(b))),
    inverse_right |-> SameMotion(Comp(a, PInv(a)), Ident(a.k)) /\ VEqV(Comp(a, PInv(a)).r, RId(a.k)),
    inverse_left  |-> SameMotion(Comp(PInv(a), a), Ident(a.k)),
    identity      |-> SameMotion(Comp(a, Ident(a.k)), a) /\ SameMotion(Comp(Ident(a.k), a), a),
    assoc         |-> SameMotion(Comp(ab, c), Comp(a, Comp(b, c))) /\ VEqV(Comp(ab, c).r, Comp(a, Comp(b, c)).r),
    action        |-> VEqV(Act(ab, pt), Act(a, Act(b, pt))),
    action_matrix |-> LET M == Mat(a) n == Dim(a.k) IN
                        VEqV(Act(a, pt), Vec([r \in 1..n |-> DSum([l \in 1..n+1 |-> M[r][l] ** (IF l <= n THEN pt[l] ELSE D1)], n+1)])),
    ominus        |-> SameMotion(Comp(b, Ominus(a, b)), a) /\ SameMotion(Ominus(a, a), Ident(a.k)),
    unit          |-> UnitRot(ab) /\ UnitRot(PInv(a)) /\ UnitRot(Ominus(a, b)) ]

Eval(cc) ==
  LET a == Lift(cc.k, cc.ta, cc.ra)  b == Lift(cc.k, cc.tb, cc.rb)  c == Lift(cc.k, cc.tc, cc.rc)
      pt == Vec([j \in 1..Len(cc.pt) |-> DI(cc.pt[j])])
      dt == Vec([j \in 1..Len(cc.dt) |-> DI(cc.dt[j])])
      dr == CASE cc.k = "SE2" -> <<DR(cc.dr[1], cc.dr[3]), DR(cc.dr[2], cc.dr[3])>>
              [] cc.k = "SE3" -> <<DR(cc.dr[1], cc.dr[4]), DR(cc.dr[2], cc.dr[4]), DR(cc.dr[3], cc.dr[4])>>
              [] OTHER -> <<>>
  IN IF cc.lite THEN [ comp |-> POut(Comp(a, b)), laws |-> [skipped |-> TRUE], unit |-> UnitRot(a) /\ UnitRot(b) ] ELSE
     [ comp |-> POut(Comp(a, b)), ominus |-> POut(Ominus(a, b)), inv |-> POut(PInv(a)), act |-> VOut(Act(a, pt)),
       mat_a |-> MOut(Mat(a)), mat_ab |-> MOut(Mat(Comp(a, b))), abc |-> POut(Comp(Comp(a, b), c)),
       boxplus |-> POut(Boxplus(a, dt, dr)), ident |-> POut(Ident(cc.k)),
       normalize |-> IF cc.k = "SE3" THEN NormalizeQ(cc.nq) ELSE <<>>,
       laws |-> IF cc.laws THEN Laws(a, b, c, pt) ELSE [skipped |-> TRUE],
       unit |-> UnitRot(a) /\ UnitRot(b) /\ UnitRot(c)
                /\ (cc.k = "SE3" => QIsSquare((D1 (-) ((dr[1]**dr[1]) (+) (dr[2]**dr[2]) (+) (dr[3]**dr[3]))).v))
                /\ (cc.k = "SE2" => QEq(((dr[1]**dr[1]) (+) (dr[2]**dr[2])).v, QI(1))),
       D |-> IF K = 0 THEN <<>> ELSE
             [ oplus_self   |-> JOut(Stored(Comp(Pert(a, 0), b))),
               oplus_other  |-> JOut(Stored(Comp(a, Pert(b, 0)))),
               ominus_self  |-> JOut(Stored(Ominus(Pert(a, 0), b))),
               ominus_other |-> JOut(Stored(Ominus(a, Pert(b, 0)))),
               boxplus_a    |-> JOut(Stored(Pert(a, 0))),
               boxplus_b    |-> JOut(Stored(Pert(b, 0))),
               point_self   |-> JOut(Act(Pert(a, 0), pt)),
               point_point  |-> JOut(Act(a, PtPert(pt))),
               inverse      |-> JOut(Stored(PInv(Pert(a, 0)))) ] ]

Init == phase = 0 /\ i \in 1..Len(CaseSeq) /\ obs = <<>>
Next == phase = 0 /\ phase' = 1 /\ i' = i /\ obs' = Eval(CaseSeq[i])
Spec == Init /\ [][Next]_vars

InputsUnit == phase = 1 => obs.unit
GroupLaws == phase = 1 => \A f \in DOMAIN obs.laws : obs.laws[f]
\* documented shapes <<rows, cols>> of the twelve Jacobian methods
Shape(m, k) ==
  CASE m \in {"oplus_self", "oplus_other", "ominus_self", "ominus_other", "inverse"} -> <<FDim(k), FDim(k)>>
    [] m \in {"oplus_self_compact", "oplus_other_compact", "ominus_self_compact", "ominus_other_compact"} -> <<CDim(k), FDim(k)>>
    [] m = "boxplus" -> <<FDim(k), CDim(k)>>
    [] m = "point_self" -> <<Dim(k), FDim(k)>>
    [] m = "point_point" -> <<Dim(k), Dim(k)>>
=============================================================================
