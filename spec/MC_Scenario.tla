---------------------------- MODULE MC_Scenario ----------------------------
(* Scenario generator: behaviours of GraphSLAM over an abstract graph of a given size. *)
(* `tlc -simulate` writes behaviours; the harness steps a REAL graph along each one    *)
(* (the argument of every action is exposed in `arg`) and records what the code did;  *)
(* the recording is then validated by Trace_GraphSLAM.  The frame conditions are also *)
(* checked on the generated behaviours themselves.                                    *)
EXTENDS GraphSLAM
CONSTANTS Templates,      \* set of [name, nv, ne]
          MaxIterSet, TolSet
VARIABLES tmpl, arg, nopt
svars == <<vars, tmpl, arg, nopt>>

NoArg == [op |-> "none", q |-> "-", target |-> 0, maxIter |-> 0, fixFirst |-> FALSE, verbose |-> FALSE, tol |-> "-", idx |-> 0, flag |-> FALSE]
AbstractVerts(n) == [i \in 1..n |-> [id |-> i, kind |-> "SE2", fixed |-> FALSE, pose |-> 0]]
AbstractEdges(n) == [i \in 1..n |-> [cls |-> "custom", vids |-> <<1>>, est |-> "array", off |-> "none", info |-> <<1, 1>>, valid |-> TRUE, num |-> 0]]

SInit == /\ tmpl \in Templates
         /\ verts = AbstractVerts(tmpl.nv) /\ edges = <<>> /\ status = "ready"
         /\ obs = [op |-> "Construct"] /\ arg = NoArg /\ nopt = 0
SQuery == \E q \in Queries : \E t \in 1..tmpl.ne :
            /\ QueryEffect(q) /\ obs' = [op |-> q]
            /\ arg' = [NoArg EXCEPT !.op = "Query", !.q = q, !.target = t] /\ UNCHANGED <<tmpl, nopt>>
SSetFixed == \E i \in 1..tmpl.nv : \E b \in BOOLEAN :
            /\ SetFixedEffect(i, b) /\ obs' = [op |-> "SetFixed"]
            /\ arg' = [NoArg EXCEPT !.op = "SetFixed", !.idx = i, !.flag = b] /\ UNCHANGED <<tmpl, nopt>>
SOpt == \E m \in MaxIterSet : \E ff \in BOOLEAN, vb \in BOOLEAN : \E tl \in TolSet :
            /\ nopt < 6
            /\ OptCallEffect(m, ff, [i \in 1..tmpl.nv |-> verts[i].pose + 1]) /\ obs' = [op |-> "OptCall"]
            /\ arg' = [NoArg EXCEPT !.op = "OptCall", !.maxIter = m, !.fixFirst = ff, !.verbose = vb, !.tol = tl]
            /\ nopt' = nopt + 1 /\ UNCHANGED tmpl
SReload == /\ ReloadEffect(FALSE, [i \in 1..tmpl.nv |-> verts[i].pose + 100], <<>>) /\ obs' = [op |-> "Reload", raised |-> FALSE]
           /\ arg' = [NoArg EXCEPT !.op = "Reload"] /\ UNCHANGED <<tmpl, nopt>>
SNext == SQuery \/ SSetFixed \/ SOpt \/ SReload
SSpec == SInit /\ [][SNext]_svars
FixedFrozenS == [][\A i \in DOMAIN verts : verts'[i].fixed => verts'[i].pose = verts[i].pose]_svars
=============================================================================
