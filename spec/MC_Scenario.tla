---------------------------- MODULE MC_Scenario ----------------------------
(* Scenario generator: behaviours of GraphSLAM over an abstract graph of a given size. *)
(* `tlc -simulate` writes behaviours; the harness steps a REAL graph along each one    *)
(* (the argument of every action is exposed in `arg`) and records what the code did;  *)
(* the recording is then validated by Trace_GraphSLAM.  The frame conditions are also *)
(* checked on the generated behaviours themselves.                                    *)
EXTENDS GraphSLAM
CONSTANTS Templates,      \* set of [name, nv, ne]
          MaxIterSet, TolSet,
          Faults,         \* whether the behaviours contain optimizer calls cut short by a failing user-defined edge (OptAbort)
          Edits           \* whether the behaviours contain the user's SetPose / SetMeas edits
VARIABLES tmpl, arg, nopt
svars == <<vars, tmpl, arg, nopt>>

NoArg == [op |-> "none", q |-> "-", target |-> 0, maxIter |-> 0, fixFirst |-> FALSE, verbose |-> FALSE, tol |-> "-", idx |-> 0, flag |-> FALSE]
AbstractVerts(n) == [i \in 1..n |-> [id |-> i, kind |-> "SE2", fixed |-> FALSE, pose |-> 0]]
AbstractEdges(n) == [i \in 1..n |-> [cls |-> "custom", vids |-> <<1>>, est |-> "array", off |-> "none", info |-> <<1, 1>>, valid |-> TRUE, num |-> 0]]

SInit == /\ tmpl \in Templates
         /\ verts = AbstractVerts(tmpl.nv) /\ edges = <<>> /\ status = "ready"
         /\ obs = [op |-> "Construct"] /\ arg = NoArg /\ nopt = 0
SQuery == \E q \in Queries : \E t \in 1..tmpl.ne :
            /\ QueryEffect(q) /\ obs' = [op |-> q]
            /\ arg' = [NoArg EXCEPT !.op = "Query", !.q = q, !.target = t] /\ UNCHANGED <<tmpl, nopt>>
SSetFixed == \E i \in 1..tmpl.nv : \E b \in BOOLEAN :
            /\ SetFixedEffect(i, b) /\ obs' = [op |-> "SetFixed"]
            /\ arg' = [NoArg EXCEPT !.op = "SetFixed", !.idx = i, !.flag = b] /\ UNCHANGED <<tmpl, nopt>>
SOpt == \E m \in MaxIterSet : \E ff \in BOOLEAN, vb \in BOOLEAN : \E tl \in TolSet :
            /\ nopt < 6
            /\ OptCallEffect(m, ff, [i \in 1..tmpl.nv |-> verts[i].pose + 1]) /\ obs' = [op |-> "OptCall"]
            /\ arg' = [NoArg EXCEPT !.op = "OptCall", !.maxIter = m, !.fixFirst = ff, !.verbose = vb, !.tol = tl]
            /\ nopt' = nopt + 1 /\ UNCHANGED tmpl
SReload == /\ ReloadEffect(FALSE, FALSE, [i \in 1..tmpl.nv |-> verts[i].pose + 100], <<>>) /\ obs' = [op |-> "Reload", raised |-> FALSE]
           /\ arg' = [NoArg EXCEPT !.op = "Reload"] /\ UNCHANGED <<tmpl, nopt>>
SSetPose == \E i \in 1..tmpl.nv :
            /\ SetPoseEffect(i, verts[i].pose + 10000) /\ obs' = [op |-> "SetPose"]
            /\ arg' = [NoArg EXCEPT !.op = "SetPose", !.idx = i] /\ UNCHANGED <<tmpl, nopt>>
\* (the abstract scenario graph carries no edges: the target edge is an index the harness resolves modulo the real edge list)
SSetMeas == \E n \in 1..tmpl.ne :
            /\ status = "ready" /\ UNCHANGED <<verts, edges, status>> /\ obs' = [op |-> "SetMeas"]
            /\ arg' = [NoArg EXCEPT !.op = "SetMeas", !.idx = n] /\ UNCHANGED <<tmpl, nopt>>
\* (idx: the assembly - 1-based, at most maxIter - during which the armed edge fails)
SOptAbort == \E m \in MaxIterSet : \E ff \in BOOLEAN : \E k \in 1..3 :
            /\ k <= m /\ nopt < 6
            /\ OptAbortEffect(ff, [i \in 1..tmpl.nv |-> verts[i].pose + 1]) /\ obs' = [op |-> "OptAbort"]
            /\ arg' = [NoArg EXCEPT !.op = "OptAbort", !.maxIter = m, !.fixFirst = ff, !.idx = k]
            /\ nopt' = nopt + 1 /\ UNCHANGED tmpl
SNext == (Faults /\ SOptAbort) \/ SQuery \/ SSetFixed \/ SOpt \/ SReload \/ (Edits /\ (SSetPose \/ SSetMeas))
SSpec == SInit /\ [][SNext]_svars
FixedFrozenS == [][obs'.op # "SetPose" => \A i \in DOMAIN verts : verts'[i].fixed => verts'[i].pose = verts[i].pose]_svars
=============================================================================
