---------------------------- MODULE MC_G2O ----------------------------
(* Export / Parse of the G2O specification evaluated on abstract graphs and abstract  *)
(* files read from cases.ndjson; the round-trip theorem T9 is checked on every graph. *)
EXTENDS G2O, Json
CaseSeq == ndJsonDeserialize("cases.ndjson")
VARIABLES phase, i, obs
vars == <<phase, i, obs>>
SetOf(s) == { s[j] : j \in DOMAIN s }
Eval(c) ==
  IF c.mode = "roundtrip"
  THEN LET f == Export(c.g) IN
       [file |-> f.lines, refused |-> f.refused, wellformed |-> WellFormed(c.g), roundtrip |-> RoundTrip(c.g),
        parsed |-> IF f.refused \/ ~WellFormed(c.g) THEN <<>> ELSE [x \in {"verts", "edges", "params", "warnings"} |-> Parse(f.lines)[x]]]
  ELSE LET p == ParseC(c.file, SetOf(c.custom)) IN [x \in {"verts", "edges", "params", "warnings"} |-> p[x]]
Init == phase = 0 /\ i \in 1..Len(CaseSeq) /\ obs = <<>>
Next == phase = 0 /\ phase' = 1 /\ i' = i /\ obs' = Eval(CaseSeq[i])
Spec == Init /\ [][Next]_vars
T9 == phase = 1 /\ CaseSeq[i].mode = "roundtrip" => obs.roundtrip
=======================================================================
