---------------------------- MODULE MC_GroupLaws ----------------------------
(* Theorem T1 on the complete closed lattice groups: for ALL triples of Hurwitz units  *)
(* (24^3) resp. C4 rotations (4^3) with a few translations, the model of Pose.tla is  *)
(* a group acting on points and its matrix form is a homomorphism.  Model-level only: *)
(* this establishes the oracle, the code is compared with it in C09/C10.              *)
EXTENDS MC_PoseCases, Lattice
VARIABLES ga, gb, gc, lawsok
gvars == <<ga, gb, gc, lawsok>>
T3A == <<1, -2, 3>>
T3B == <<-4, 0, 5>>
T3C == <<2, 7, -1>>
GInit == /\ phase = 0 /\ i = 0 /\ obs = <<>> /\ lawsok = "todo"
         /\ \E a \in Hurwitz, b \in Hurwitz, c \in Hurwitz : ga = a /\ gb = b /\ gc = c
Rot2Small == C4 \cup Py5 \cup Py13
GInit2 == /\ phase = 0 /\ i = 0 /\ obs = <<>> /\ lawsok = "todo"
          /\ \E a \in Rot2Small, b \in Rot2Small, c \in Rot2Small : ga = a /\ gb = b /\ gc = c
LawsHold3 == LET l == Laws(Lift("SE3", T3A, ga), Lift("SE3", T3B, gb), Lift("SE3", T3C, gc), <<DI(3), DI(-1), DI(2)>>) IN \A f \in DOMAIN l : l[f]
LawsHold2 == LET l == Laws(Lift("SE2", <<1, -2>>, ga), Lift("SE2", <<-4, 5>>, gb), Lift("SE2", <<2, 7>>, gc), <<DI(3), DI(-1)>>) IN \A f \in DOMAIN l : l[f]
GNext3 == lawsok = "todo" /\ lawsok' = (IF LawsHold3 THEN "ok" ELSE "bad") /\ UNCHANGED <<phase, i, obs, ga, gb, gc>>
GNext2 == lawsok = "todo" /\ lawsok' = (IF LawsHold2 THEN "ok" ELSE "bad") /\ UNCHANGED <<phase, i, obs, ga, gb, gc>>
GSpec3 == GInit /\ [][GNext3]_<<vars, gvars>>
GSpec2 == GInit2 /\ [][GNext2]_<<vars, gvars>>
AllLaws == lawsok # "bad"
=============================================================================
