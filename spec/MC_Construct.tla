---------------------------- MODULE MC_Construct ----------------------------
(* Exhaustive exploration of GraphSLAM!Construct over the cross product of edge class,*)
(* vertex count, kind of every endpoint, measurement type, offset type, information   *)
(* shape, presence of each named id in the vertex list, and vertex-list order.        *)
EXTENDS GraphSLAM, SequencesExt
VARIABLES cfg
allvars == <<vars, cfg>>

Decoy == [id |-> 99, kind |-> "SE2", fixed |-> FALSE, pose |-> "p"]
VList(c) ==
  LET all == [j \in 1..(c.nv + 1) |-> IF j <= c.nv THEN [id |-> 10 * j, kind |-> c.kinds[j], fixed |-> FALSE, pose |-> "p"] ELSE Decoy]
      kept == SelectSeq(all, LAMBDA v : v.id = 99 \/ c.present[v.id \div 10])
  IN IF c.perm = "rev" THEN Reverse(kept) ELSE kept
EList(c) == << [cls |-> c.cls, vids |-> [j \in 1..c.nv |-> 10 * j], est |-> c.est, off |-> c.off, info |-> c.info, valid |-> TRUE, num |-> "n"] >>

MCNext == Construct(VList(cfg), EList(cfg)) /\ cfg' = cfg

EstTypes == Kinds \cup {"array", "float"}
OffTypes == Kinds \cup {"none"}
SquareShapes == { <<n, n>> : n \in 1..7 }
OddShapes == { <<2, 3>>, <<3, 2>>, <<3, 0>> }
KindTuples(n) == [1..n -> Kinds]
AllPresent(n) == [j \in 1..n |-> TRUE]
\* one family of initial configurations (existential form: TLC enumerates it orders of magnitude faster than membership in a big set)
InitCfg(clss, nvs, ests, offs, infos, presents(_), perms) ==
  \E cl \in clss, n \in nvs, es \in ests, of \in offs, inf \in infos, pm \in perms :
    \E ks \in KindTuples(n), pr \in presents(n) :
      /\ (cl = "odo" => of = "none")
      /\ cfg = [cls |-> cl, nv |-> n, kinds |-> ks, est |-> es, off |-> of, info |-> inf, present |-> pr, perm |-> pm]
AnyPresent(n) == [1..n -> BOOLEAN]
OneAbsent(n) == { AllPresent(n) } \cup { [j \in 1..n |-> j # a] : a \in 1..n }
\* the typing verdict does not depend on the order of the vertex list (bind by id)
OrderIrrelevant == status # "unbuilt" =>
   (status = "ready") = Accepts(VList([cfg EXCEPT !.perm = IF @ = "rev" THEN "fwd" ELSE "rev"]), EList(cfg))
=============================================================================
