---------------------------- MODULE MC_Construct ----------------------------
(* Exhaustive exploration of GraphSLAM!Construct over the cross product of edge class,*)
(* vertex count, kind of every endpoint, measurement type, offset type, information   *)
(* shape, presence of each named id in the vertex list, and vertex-list order.        *)
EXTENDS GraphSLAM, SequencesExt
VARIABLES cfg
allvars == <<vars, cfg>>

AllPresent(n) == [j \in 1..n |-> TRUE]
\* id schemes: "tens": endpoints 10, 20, 30 and a decoy 99;  "bare": the same without the decoy;  "dense": ids 0..N-1 with a decoy first (0) and last (N-1) and the endpoints
\* in between (in the order given by perm), i.e. a zero-based contiguous id range whose interior may be out of order
EId(c, j) == IF c.ids = "dense" THEN j ELSE 10 * j
MkV(i, k) == [id |-> i, kind |-> k, fixed |-> FALSE, pose |-> "p"]
VList(c) ==
  LET ends == [j \in 1..c.nv |-> MkV(EId(c, j), c.kinds[j])]
      kept == SelectSeq(ends, LAMBDA v : c.present[IF c.ids = "dense" THEN v.id ELSE v.id \div 10])
      mid == IF c.perm = "rev" THEN Reverse(kept) ELSE kept
  IN IF c.ids = "dense" THEN <<MkV(0, "SE2")>> \o mid \o <<MkV(c.nv + 1, "R2")>>
     ELSE IF c.ids = "bare" THEN mid                                        \* no decoy: with every named id absent the vertex list is EMPTY
     ELSE IF c.perm = "rev" THEN <<MkV(99, "SE2")>> \o mid ELSE mid \o <<MkV(99, "SE2")>>
\* dup = "none": the edge names nv different vertices; dup = "last": it names nv vertices but the last id repeats the first one
EVids(c) == [j \in 1..c.nv |-> IF c.dup = "last" /\ j = c.nv /\ c.nv > 1 THEN EId(c, 1) ELSE EId(c, j)]
TestEdge(c) == [cls |-> c.cls, vids |-> EVids(c), est |-> c.est, off |-> c.off, info |-> c.info, valid |-> TRUE, num |-> "n"]
\* a CONSISTENT edge of the same class over the same two endpoints, listed before the edge under test (when the endpoint kinds admit one):
\* every edge of a graph is checked, not one representative per kind of edge
HasCompanion(c) == /\ c.comp /\ c.nv = 2 /\ c.present = AllPresent(2) /\ c.dup = "none"
                   /\ IF c.cls = "odo" THEN c.kinds[1] = c.kinds[2] ELSE IsPoint(c.kinds[2]) /\ Dim(c.kinds[1]) = Dim(c.kinds[2])
Companion(c) == IF c.cls = "odo"
                THEN [cls |-> "odo", vids |-> EVids(c), est |-> c.kinds[1], off |-> "none", info |-> <<CDim(c.kinds[1]), CDim(c.kinds[1])>>, valid |-> TRUE, num |-> "m"]
                ELSE [cls |-> "lm", vids |-> EVids(c), est |-> c.kinds[2], off |-> c.kinds[1], info |-> <<CDim(c.kinds[2]), CDim(c.kinds[2])>>, valid |-> TRUE, num |-> "m"]
EList(c) == IF HasCompanion(c) THEN << Companion(c), TestEdge(c) >> ELSE << TestEdge(c) >>

MCNext == Construct(VList(cfg), EList(cfg)) /\ cfg' = cfg

EstTypes == Kinds \cup {"array", "float"}
OffTypes == Kinds \cup {"none"}
SquareShapes == { <<n, n>> : n \in 1..7 }
OddShapes == { <<2, 3>>, <<3, 2>>, <<3, 0>> }
KindTuples(n) == [1..n -> Kinds]
\* one family of initial configurations (existential form: TLC enumerates it orders of magnitude faster than membership in a big set)
InitCfg(clss, nvs, ests, offs, infos, presents(_), perms) ==
  \E cl \in clss, n \in nvs, es \in ests, of \in offs, inf \in infos, pm \in perms :
    \E ks \in KindTuples(n), pr \in presents(n) :
      /\ (cl = "odo" => of = "none")
      /\ \E sch \in {"tens", "dense", "bare"}, dp \in {"none", "last"}, cp \in BOOLEAN :
           /\ (sch = "bare" => dp = "none" /\ ~cp)
           /\ (cp => n = 2 /\ pr = AllPresent(n) /\ dp = "none" /\ sch = "tens")
           /\ (dp = "last" => n = 3 /\ pr = AllPresent(n))                 \* (an edge naming one vertex twice among TWO ids is outside the domain, R7)
           /\ (sch = "dense" => pr = AllPresent(n))
           /\ cfg = [cls |-> cl, nv |-> n, kinds |-> ks, est |-> es, off |-> of, info |-> inf, present |-> pr, perm |-> pm, ids |-> sch, dup |-> dp, comp |-> cp]
AnyPresent(n) == [1..n -> BOOLEAN]
OneAbsent(n) == { AllPresent(n) } \cup { [j \in 1..n |-> j # a] : a \in 1..n }
\* the typing verdict does not depend on the order of the vertex list (bind by id)
OrderIrrelevant == status # "unbuilt" =>
   (status = "ready") = Accepts(VList([cfg EXCEPT !.perm = IF @ = "rev" THEN "fwd" ELSE "rev"]), EList(cfg))
=============================================================================
