---------------------------- MODULE MC_GraphSLAM ----------------------------
(* Exhaustive bounded model of the system specification: every behaviour of           *)
(* Construct / Query / SetFixed / SetPose / SetMeas / OptCall / Reload over a small universe of vertices, edges,   *)
(* pose tokens and stop functions.  Checks the frame conditions as action properties  *)
(* and the binding invariant on ALL reachable states (not only on sampled behaviours).*)
EXTENDS GraphSLAM
CONSTANTS MaxV, Tokens, MaxIterMC
VertexLists == UNION { [1..n -> [id : 1..MaxV, kind : {"SE2", "R2"}, fixed : BOOLEAN, pose : {0}]] : n \in 1..MaxV }
EdgeChoices == { [cls |-> "odo", vids |-> <<a, b>>, est |-> k, off |-> "none", info |-> <<3, 3>>, valid |-> TRUE, num |-> 0] : a \in 1..MaxV, b \in 1..MaxV, k \in {"SE2", "R2"} }
               \cup { [cls |-> "lm", vids |-> <<a, b>>, est |-> "R2", off |-> "SE2", info |-> <<2, 2>>, valid |-> TRUE, num |-> 0] : a \in 1..MaxV, b \in 1..MaxV }
               \cup { [cls |-> "custom", vids |-> <<a>>, est |-> "array", off |-> "none", info |-> <<1, 1>>, valid |-> v, num |-> 0] : a \in 1..MaxV, v \in BOOLEAN }
DoSetPose == \E i \in 1..MaxV : \E t \in Tokens : SetPose(i, t)
DoSetMeas == \E t \in {0, 1} : SetMeas(1, t)
MCNext ==
  \/ \E vs \in VertexLists : \E e \in EdgeChoices : UniqueIds(vs) /\ Construct(vs, <<e>>)
  \/ \E q \in {"calc_chi2", "edge_jacobians", "to_g2o"} : Query(q)
  \/ \E i \in 1..MaxV : \E b \in BOOLEAN : SetFixed(i, b)
  \/ \E ff \in BOOLEAN : \E np \in [DOMAIN verts -> Tokens] : OptAbort(ff, np)
  \/ DoSetPose
  \/ DoSetMeas
  \/ \E r \in BOOLEAN, keep \in BOOLEAN : \E np \in [DOMAIN verts -> Tokens] : Reload(r, keep, np, [n \in DOMAIN edges |-> 0])
  \/ \E m \in 1..MaxIterMC : \E ff \in BOOLEAN : \E st \in [1..m -> BOOLEAN] : \E np \in [DOMAIN verts -> Tokens] : OptCall(m, ff, TRUE, st, np)
MCSpec == Init /\ [][MCNext]_vars
\* model mutant (vacuity guard): an optimizer that also updates fixed vertices must violate FixedFrozen
BadOptCall(np) == /\ status = "ready" /\ Len(verts) >= 1
                  /\ verts' = [i \in DOMAIN verts |-> [verts[i] EXCEPT !.pose = np[i]]]
                  /\ obs' = [op |-> "OptCall", rep |-> Outcome([k \in 1..1 |-> FALSE], 0, 1)] /\ UNCHANGED <<edges, status>>
MutantSpec == Init /\ [][MCNext \/ \E np \in [DOMAIN verts -> Tokens] : BadOptCall(np)]_vars
\* second model mutant: a "query" that writes a pose must violate PosesRule (and QueriesPure); third: an edit of a measurement that renames a
\* vertex must violate StructureFrozen
BadQuery == /\ status = "ready" /\ Len(verts) >= 1 /\ verts' = [verts EXCEPT ![1].pose = 1 - @] /\ obs' = [op |-> "calc_chi2"] /\ UNCHANGED <<edges, status>>
Mutant2Spec == Init /\ [][MCNext \/ BadQuery]_vars
BadSetMeas == /\ status = "ready" /\ Len(edges) >= 1 /\ edges' = [edges EXCEPT ![1].vids = <<2, 1>>, ![1].num = 1] /\ edges'[1] # edges[1]
              /\ obs' = [op |-> "SetMeas"] /\ UNCHANGED <<verts, status>>
Mutant3Spec == Init /\ [][MCNext \/ BadSetMeas]_vars
\* the report of every optimizer call is a legal outcome: between 1 and maxIter iterations, entries = iterations (+1 on early stop)
ReportShape == obs.op = "OptCall" => /\ obs.rep.numIter >= 1 /\ obs.rep.lenResults \in {obs.rep.numIter, obs.rep.numIter + 1}
                                     /\ (obs.rep.lenResults = obs.rep.numIter + 1 => obs.rep.converged /\ ~obs.rep.lastComplete)
\* the first vertex is fixed after any call with fix_first_pose; a fixed vertex stays fixed across optimizer calls
FirstFixedAfterOpt == [][obs'.op \in {"OptCall", "OptAbort"} /\ status = "ready" => \A i \in DOMAIN verts : verts[i].fixed => verts'[i].fixed]_vars
=============================================================================
