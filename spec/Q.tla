---------------------------- MODULE Q ----------------------------
(* Exact rational arithmetic for TLC.  A rational is a pair <<n, d>> with d > 0.      *)
(* Normalisation is lazy (gcd only once |n| or d reaches 2^15); addition is over the  *)
(* lcm of the denominators.  TLC raises "Overflow" instead of wrapping, so a result   *)
(* that TLC prints is exact.                                                          *)
EXTENDS Integers, Sequences, TLC

Abs(x) == IF x < 0 THEN -x ELSE x
RECURSIVE Gcd(_,_)
Gcd(a,b) == IF b = 0 THEN a ELSE Gcd(b, a % b)
Lim == 32768
Red(n,d) == LET g == Gcd(Abs(n), d) IN IF g = 0 THEN <<0,1>> ELSE <<n \div g, d \div g>>
Nrm(n,d) == IF d < Lim /\ n < Lim /\ n > -Lim THEN <<n,d>> ELSE Red(n,d)
QI(i) == <<i,1>>
QR(n,d) == IF d < 0 THEN Red(-n,-d) ELSE Red(n,d)
QAdd(a,b) == IF a[2] = b[2] THEN Nrm(a[1]+b[1], a[2])
             ELSE IF a[2] % b[2] = 0 THEN Nrm(a[1] + b[1]*(a[2] \div b[2]), a[2])
             ELSE IF b[2] % a[2] = 0 THEN Nrm(a[1]*(b[2] \div a[2]) + b[1], b[2])
             ELSE LET g == Gcd(a[2], b[2]) IN Nrm(a[1]*(b[2] \div g) + b[1]*(a[2] \div g), (a[2] \div g)*b[2])
QNeg(a) == <<-a[1], a[2]>>
QSub(a,b) == QAdd(a, QNeg(b))
Small(a) == a[2] < Lim /\ a[1] < Lim /\ a[1] > -Lim
QMul(a,b) == IF a[1] = 0 \/ b[1] = 0 THEN <<0,1>>
             ELSE IF Small(a) /\ Small(b) THEN Nrm(a[1]*b[1], a[2]*b[2])
             ELSE LET g1 == Gcd(Abs(a[1]), b[2])  g2 == Gcd(Abs(b[1]), a[2])        \* cross-reduce before multiplying
                  IN Nrm((a[1] \div g1) * (b[1] \div g2), (a[2] \div g2) * (b[2] \div g1))
QInv(a) == IF a[1] > 0 THEN <<a[2], a[1]>> ELSE <<-a[2], -a[1]>>      \* a # 0
QDiv(a,b) == QMul(a, QInv(b))
QEq(a,b) == a[1]*b[2] = b[1]*a[2]
QLe(a,b) == a[1]*b[2] <= b[1]*a[2]
QLt(a,b) == a[1]*b[2] < b[1]*a[2]
QIsZero(a) == a[1] = 0
QSign(a) == IF a[1] > 0 THEN 1 ELSE IF a[1] < 0 THEN -1 ELSE 0
QCanon(a) == Red(a[1], a[2])

\* exact integer square root (only defined on perfect squares; -1 otherwise)
RECURSIVE ISqrtFrom(_,_)
ISqrtFrom(n, r) == IF r*r = n THEN r ELSE IF r*r > n THEN -1 ELSE ISqrtFrom(n, r+1)
ISqrt(n) == ISqrtFrom(n, 0)
QIsSquare(a) == LET c == QCanon(a) IN c[1] >= 0 /\ ISqrt(c[1]) >= 0 /\ ISqrt(c[2]) >= 0
QSqrt(a) == LET c == QCanon(a) IN <<ISqrt(c[1]), ISqrt(c[2])>>
=====================================================================
