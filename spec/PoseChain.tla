---------------------------- MODULE PoseChain ----------------------------
(* Long chains of pose operations inside a CLOSED lattice group (SE(2) over C4 and    *)
(* integer translations; SE(3) over the 24 Hurwitz units and integer translations):   *)
(* every state is exact however long the chain.  `tlc -simulate` generates random     *)
(* behaviours; the harness applies the same operations to real poses and compares     *)
(* after every action (C11: angle range, unit norm; C09: the group operations).       *)
EXTENDS Pose
CONSTANTS Kind,         \* "SE2" or "SE3"
          Gens,         \* generator poses: lattice data [t |-> <<..>>, r |-> <<..>>]
          Incs          \* boxplus increments [dt |-> <<..>>, dr |-> <<..>>] with dr inside the group
VARIABLES cur, arg, steps
vars == <<cur, arg, steps>>

L(x) == Lift(Kind, x.t, x.r)
NoArg == [op |-> "init", x |-> 0]
Init == cur = POut(Ident(Kind)) /\ arg = NoArg /\ steps = 0
\* the current pose is kept in printed (canonical rational) form; re-lift it for the next operation
Cur == [k |-> Kind, t |-> Vec([c \in 1..Len(cur.t) |-> DC(cur.t[c])]), r |-> Vec([c \in 1..Len(cur.r) |-> DC(cur.r[c])])]
Do(op, j, p) == cur' = POut(p) /\ arg' = [op |-> op, x |-> j] /\ steps' = steps + 1
GenSeq == Gens
Next ==
  \/ \E j \in DOMAIN GenSeq : Do("compose_right", j, Comp(Cur, L(GenSeq[j])))
  \/ \E j \in DOMAIN GenSeq : Do("compose_left", j, Comp(L(GenSeq[j]), Cur))
  \/ \E j \in DOMAIN GenSeq : Do("diff_right", j, Ominus(Cur, L(GenSeq[j])))
  \/ \E j \in DOMAIN GenSeq : Do("diff_left", j, Ominus(L(GenSeq[j]), Cur))
  \/ Do("inverse", 0, PInv(Cur))
  \/ \E j \in DOMAIN Incs : Do("update", j,
        LET d == Incs[j]
            dt == Vec([c \in 1..Len(d.dt) |-> DI(d.dt[c])])
            dr == IF Kind = "SE2" THEN <<DR(d.dr[1], d.dr[3]), DR(d.dr[2], d.dr[3])>> ELSE <<DR(d.dr[1], d.dr[4]), DR(d.dr[2], d.dr[4]), DR(d.dr[3], d.dr[4])>>
        IN Boxplus(Cur, dt, dr))
Spec == Init /\ [][Next]_vars
\* T2: the rotation part stays on the manifold, exactly, along every behaviour
OnManifold == UnitRot(Cur)
==========================================================================
