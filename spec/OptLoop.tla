---------------------------- MODULE OptLoop ----------------------------
(* The control skeleton of Graph.optimize(tol, max_iter): one PlusCal process whose   *)
(* labels are the code points of the loop, over an ABSTRACT chi^2 sequence.           *)
(*                                                                                    *)
(* Abstraction: the pose state is the number of Gauss-Newton updates applied so far   *)
(* (`applied`) - sound because an update is a function of the state - and chi^2 at    *)
(* state n is the opaque value n.  Whether iteration k "stops" (chi2_k <= chi2_{k-1}   *)
(* and relative decrease < tol) is an arbitrary boolean function Stop of the ABSOLUTE *)
(* state index k >= 1 (a function of the two states k-1, k and of tol only).          *)
(*                                                                                    *)
(* This module holds the algorithm only (no recursive operators), so that both TLC    *)
(* (OptControl: ReportCorrect, Termination, SplitTheorem up to a bound) and TLAPS     *)
(* (OptControlProofs: an inductive invariant for EVERY bound) can work on it.         *)
EXTENDS Integers, Sequences
CONSTANTS MaxIter,     \* bound on max_iter
          MaxStart     \* bound on the number of updates applied before the call (call splitting)

(* --fair algorithm Optimize
variables
  stop \in [1..(MaxStart + MaxIter) -> BOOLEAN],   \* stop[k]: criterion holds between states k-1 and k
  start \in 0..MaxStart,                           \* updates applied before this call
  maxIter \in 1..MaxIter,
  applied = start,                                 \* updates applied so far (the pose state)
  i = 0,                                           \* loop counter of the code
  chi2prev = -1,                                   \* state index whose chi^2 is in chi2_prev (-1: none)
  chi2 = -1,                                       \* state index whose chi^2 is in self._chi2
  results = << >>,                                 \* iteration_results: seq of [chi2, complete]
  initial = -1, final = -1, converged = FALSE, numIter = -1,
  rows = 0;                                        \* lines printed when verbose
begin
Loop:
  while i < maxIter do
    results := Append(results, [chi2 |-> -1, complete |-> FALSE]);
  Assemble:                                        \* _calc_chi2_gradient_hessian: chi^2 of the current state
    chi2 := applied;
  Check:
    if i > 0 then
      rows := rows + 1;
      results[Len(results) - 1].chi2 := chi2;
      if stop[applied] then                        \* chi2 <= chi2_prev and rel_diff < tol
        converged := TRUE; numIter := i; final := chi2;
        goto Ret;
      end if;
    else
      initial := chi2; rows := rows + 1;
    end if;
  Solve:
    chi2prev := chi2;
    results[Len(results)].complete := TRUE;        \* solve_duration_s is set
  Update:
    applied := applied + 1;
    i := i + 1;
  end while;
Final:                                             \* max_iter reached: one more chi^2 evaluation
  chi2 := applied;
  rows := rows + 1;
  results[Len(results)].chi2 := chi2;
  converged := stop[applied];
  numIter := maxIter;
  final := chi2;
Ret:
  skip;
end algorithm; *)
\* BEGIN TRANSLATION
VARIABLES pc, stop, start, maxIter, applied, i, chi2prev, chi2, results, 
          initial, final, converged, numIter, rows

vars == << pc, stop, start, maxIter, applied, i, chi2prev, chi2, results, 
           initial, final, converged, numIter, rows >>

Init == (* Global variables *)
        /\ stop \in [1..(MaxStart + MaxIter) -> BOOLEAN]
        /\ start \in 0..MaxStart
        /\ maxIter \in 1..MaxIter
        /\ applied = start
        /\ i = 0
        /\ chi2prev = -1
        /\ chi2 = -1
        /\ results = << >>
        /\ initial = -1
        /\ final = -1
        /\ converged = FALSE
        /\ numIter = -1
        /\ rows = 0
        /\ pc = "Loop"

Loop == /\ pc = "Loop"
        /\ IF i < maxIter
              THEN /\ results' = Append(results, [chi2 |-> -1, complete |-> FALSE])
                   /\ pc' = "Assemble"
              ELSE /\ pc' = "Final"
                   /\ UNCHANGED results
        /\ UNCHANGED << stop, start, maxIter, applied, i, chi2prev, chi2, 
                        initial, final, converged, numIter, rows >>

Assemble == /\ pc = "Assemble"
            /\ chi2' = applied
            /\ pc' = "Check"
            /\ UNCHANGED << stop, start, maxIter, applied, i, chi2prev, 
                            results, initial, final, converged, numIter, rows >>

Check == /\ pc = "Check"
         /\ IF i > 0
               THEN /\ rows' = rows + 1
                    /\ results' = [results EXCEPT ![Len(results) - 1].chi2 = chi2]
                    /\ IF stop[applied]
                          THEN /\ converged' = TRUE
                               /\ numIter' = i
                               /\ final' = chi2
                               /\ pc' = "Ret"
                          ELSE /\ pc' = "Solve"
                               /\ UNCHANGED << final, converged, numIter >>
                    /\ UNCHANGED initial
               ELSE /\ initial' = chi2
                    /\ rows' = rows + 1
                    /\ pc' = "Solve"
                    /\ UNCHANGED << results, final, converged, numIter >>
         /\ UNCHANGED << stop, start, maxIter, applied, i, chi2prev, chi2 >>

Solve == /\ pc = "Solve"
         /\ chi2prev' = chi2
         /\ results' = [results EXCEPT ![Len(results)].complete = TRUE]
         /\ pc' = "Update"
         /\ UNCHANGED << stop, start, maxIter, applied, i, chi2, initial, 
                         final, converged, numIter, rows >>

Update == /\ pc = "Update"
          /\ applied' = applied + 1
          /\ i' = i + 1
          /\ pc' = "Loop"
          /\ UNCHANGED << stop, start, maxIter, chi2prev, chi2, results, 
                          initial, final, converged, numIter, rows >>

Final == /\ pc = "Final"
         /\ chi2' = applied
         /\ rows' = rows + 1
         /\ results' = [results EXCEPT ![Len(results)].chi2 = chi2']
         /\ converged' = stop[applied]
         /\ numIter' = maxIter
         /\ final' = chi2'
         /\ pc' = "Ret"
         /\ UNCHANGED << stop, start, maxIter, applied, i, chi2prev, initial >>

Ret == /\ pc = "Ret"
       /\ TRUE
       /\ pc' = "Done"
       /\ UNCHANGED << stop, start, maxIter, applied, i, chi2prev, chi2, 
                       results, initial, final, converged, numIter, rows >>

(* Allow infinite stuttering to prevent deadlock on termination. *)
Terminating == pc = "Done" /\ UNCHANGED vars

Next == Loop \/ Assemble \/ Check \/ Solve \/ Update \/ Final \/ Ret
           \/ Terminating

Spec == /\ Init /\ [][Next]_vars
        /\ WF_vars(Next)

Termination == <>(pc = "Done")

\* END TRANSLATION
==========================================================================
