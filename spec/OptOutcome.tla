---------------------------- MODULE OptOutcome ----------------------------
(* Closed form of one Graph.optimize(max_iter = m) call started after s updates, given *)
(* the stop criterion st[k] between states k-1 and k.  Proved equal to what the loop  *)
(* of OptControl returns (invariant ReportCorrect there), used by GraphSLAM!OptCall.  *)
EXTENDS Integers, Sequences
\* ---- the closed form ----
\* first loop index k in 1..m-1 at which the run stops early, or 0
RECURSIVE FirstStop(_,_,_,_)
FirstStop(st, s, k, m) == IF k >= m THEN 0 ELSE IF st[s + k] THEN k ELSE FirstStop(st, s, k + 1, m)

Outcome(st, s, m) ==
  LET k == FirstStop(st, s, 1, m)
      n == IF k > 0 THEN k ELSE m                  \* updates performed = num_iterations
  IN [ numIter   |-> n,
       converged |-> IF k > 0 THEN TRUE ELSE st[s + m],
       lenResults |-> IF k > 0 THEN n + 1 ELSE n,
       lastComplete |-> k = 0,
       initial |-> s, final |-> s + n, applied |-> s + n,
       chi2s |-> [j \in 1..n |-> s + j],           \* results[j].chi2 for the complete iterations
       rows |-> n + 1 ]

=============================================================================
