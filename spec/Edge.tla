---------------------------- MODULE Edge ----------------------------
(* Measurement models of python-graphslam's edges over the exact pose algebra.        *)
(*   odometry : e = compact( z (-) (p2 (-) p1) )                                      *)
(*   landmark : e = ((p1 (+) off)^-1 applied to l) - z                                *)
(* and their Jacobians with respect to the boxplus perturbation of each vertex at 0,  *)
(* obtained by dual numbers (so: the derivative itself, not an approximation).        *)
(* The SE(2) angular error is atan2 of a rational point of the circle, which is not   *)
(* rational: it is carried as the atom <<c, s>>; its derivative c ds - s dc is exact. *)
EXTENDS Pose

\* ---------- error values ----------
\* the relative motion whose compact form is the odometry error
OdoDelta(p1, p2, z) == Ominus(z, Ominus(p2, p1))
LmPoint(p1, l, off) == Act(PInv(Comp(p1, off)), l.t)
LmErrVec(p1, l, off, z) == VSub(LmPoint(p1, l, off), z.t)

\* gradient (w.r.t. all K directions) of the angle of the rotation <<c,s>>:  c ds - s dc
AngGrad(r) == Vec([i \in 1..K |-> QSub(QMul(r[1].v, r[2].g[i]), QMul(r[2].v, r[1].g[i]))])

\* Error components as records: [v |-> rational, g |-> gradient] for rational components,
\* [ang |-> <<c,s>>, g |-> gradient] for the SE(2) angular component.
\* conv = "raw":   the SE(3) rotational error is the vector part of the error quaternion as computed;
\* conv = "canon": of its representative with non-negative scalar part (q and -q are the same rotation), which is the
\*                 convention under which chi^2 does not depend on the sign of any quaternion.
NegRow(c) == [v |-> QNeg(c.v), g |-> Vec([i \in 1..K |-> QNeg(c.g[i])])]
CompactRowsC(d, conv) ==
  CASE d.k = "SE2" -> << [v |-> d.t[1].v, g |-> d.t[1].g], [v |-> d.t[2].v, g |-> d.t[2].g],
                         [ang |-> <<QCanon(d.r[1].v), QCanon(d.r[2].v)>>, g |-> AngGrad(d.r)] >>
    [] d.k = "SE3" -> IF conv = "canon" /\ d.r[4].v[1] < 0
                      THEN << d.t[1], d.t[2], d.t[3], NegRow(d.r[1]), NegRow(d.r[2]), NegRow(d.r[3]) >>
                      ELSE << d.t[1], d.t[2], d.t[3], d.r[1], d.r[2], d.r[3] >>
    [] OTHER -> d.t
OdoErrC(p1, p2, z, conv) == CompactRowsC(OdoDelta(p1, p2, z), conv)
OdoErr(p1, p2, z) == OdoErrC(p1, p2, z, "raw")
\* scalar part of the SE(3) error quaternion (its sign decides the representative)
OdoErrW(p1, p2, z) == LET d == OdoDelta(p1, p2, z) IN IF d.k = "SE3" THEN QCanon(d.r[4].v) ELSE QI(1)

\* perturbed operands: vertex 1 uses directions 1..c1, vertex 2 uses c1+1..c1+c2
OdoErrJ(p1, p2, z) == OdoErr(Pert(p1, 0), Pert(p2, CDim(p1.k)), z)
LmErrJ(p1, l, off, z) == LmErrVec(Pert(p1, 0), Pert(l, CDim(p1.k)), off, z)

IsAng(c) == "ang" \in DOMAIN c
\* printing
EOut(e) == [i \in 1..Len(e) |-> IF IsAng(e[i]) THEN <<"ang", e[i].ang[1], e[i].ang[2]>> ELSE QCanon(e[i].v)]
JOut(e) == [i \in 1..Len(e) |-> [j \in 1..K |-> QCanon(e[i].g[j])]]

\* ---------- chi^2 ----------
\* Omega: integer matrix (tuple of rows).  For rational error components chi2 = e' W e.
\* With an angular atom a (SE(2) odometry, third component):  chi2 = c0 + c1*a + c2*a^2.
RECURSIVE QSumF(_,_)
QSumF(f, n) == IF n = 0 THEN QI(0) ELSE QAdd(QSumF(f, n-1), f[n])
Chi2Rat(ev, W) == LET n == Len(ev) IN
   QSumF([i \in 1..n |-> QSumF([j \in 1..n |-> QMul(QMul(ev[i], QI(W[i][j])), ev[j])], n)], n)
\* ev: tuple of rationals with ev[3] ignored when ang
Chi2Form(e, W) ==
  LET n == Len(e)
      hasA == n = 3 /\ IsAng(e[3])
      ev == [i \in 1..n |-> IF IsAng(e[i]) THEN QI(0) ELSE e[i].v]
  IN IF ~hasA THEN [c0 |-> QCanon(Chi2Rat(ev, W)), c1 |-> QI(0), c2 |-> QI(0)]
     ELSE [c0 |-> QCanon(Chi2Rat(ev, W)),
           c1 |-> QCanon(QAdd(QMul(QI(W[1][3] + W[3][1]), ev[1]), QMul(QI(W[2][3] + W[3][2]), ev[2]))),
           c2 |-> QI(W[3][3])]

=====================================================================
