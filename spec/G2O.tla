---------------------------- MODULE G2O ----------------------------
(* The .g2o text format as python-graphslam writes and reads it.                      *)
(* Numbers and ids are SYMBOLS here (indices into tables that the harness fills with  *)
(* float64 values / Python ints): the specification fixes which symbol goes where -   *)
(* token layout per tag, row-major upper triangle of the information matrix, order of *)
(* the lines (parameters, vertices, edges), dispatch order of the reader, resolution  *)
(* of landmark offsets through previously read parameters - and marks the positions   *)
(* where the reader may legitimately change the last bits (angle wrap, quaternion     *)
(* normalisation).                                                                    *)
(*                                                                                    *)
(*  graph  == [params: Seq(param), verts: Seq(vertex), edges: Seq(edge)]              *)
(*  vertex == [id, kind, nums]                                                        *)
(*  edge   == [cls: "odo"|"lm", kind (of the first vertex), vids, est, info, n,       *)
(*             offid, off]   info: the n(n+1)/2 upper-triangular entries, row-major   *)
(*  param  == [tag, id, nums]                                                         *)
(*  token  == <<"tag", s>> | <<"id", i>> | <<"num", x>>                               *)
EXTENDS Kinds, TLC

VTag(k) == CASE k = "SE2" -> "VERTEX_SE2" [] k = "SE3" -> "VERTEX_SE3:QUAT" [] k = "R2" -> "VERTEX_XY" [] k = "R3" -> "VERTEX_TRACKXYZ"
KindOfVTag(t) == CASE t = "VERTEX_SE2" -> "SE2" [] t = "VERTEX_SE3:QUAT" -> "SE3" [] t = "VERTEX_XY" -> "R2" [] t = "VERTEX_TRACKXYZ" -> "R3"
VTags == {"VERTEX_SE2", "VERTEX_SE3:QUAT", "VERTEX_XY", "VERTEX_TRACKXYZ"}
PTag(k) == IF k = "SE2" THEN "PARAMS_SE2OFFSET" ELSE "PARAMS_SE3OFFSET"
Tri(n) == (n * (n + 1)) \div 2

Ids(s) == [j \in 1..Len(s) |-> <<"id", s[j]>>]
Nums(s) == [j \in 1..Len(s) |-> <<"num", s[j]>>]

\* ---------- what the format can express ----------
\* identity offsets are recognised by the harness-provided predicate on symbols: symbol 0 is the number 0.0, symbol 1 is 1.0
IsIdentityOff(k, off) == IF k = "SE2" THEN off = <<0, 0, 0>> ELSE off = <<0, 0, 0, 0, 0, 0, 1>>
EdgeExpressible(g, e) ==
  \/ e.cls = "odo" /\ e.kind \in {"SE2", "SE3"}
  \/ e.cls = "lm" /\ e.kind = "SE2" /\ IsIdentityOff("SE2", e.off)             \* EDGE_SE2_XY has no offset field
  \/ e.cls = "lm" /\ e.kind = "SE3"
Expressible(g) == \A n \in DOMAIN g.edges : EdgeExpressible(g, g.edges[n])

\* ---------- export ----------
ParamLine(p) == <<<<"tag", p.tag>>, <<"id", p.id>>>> \o Nums(p.nums)
VertexLine(v) == <<<<"tag", VTag(v.kind)>>, <<"id", v.id>>>> \o Nums(v.nums)
EdgeLine(e) ==
  CASE e.cls = "odo" /\ e.kind = "SE2" -> <<<<"tag", "EDGE_SE2">>>> \o Ids(e.vids) \o Nums(e.est) \o Nums(e.info)
    [] e.cls = "odo" /\ e.kind = "SE3" -> <<<<"tag", "EDGE_SE3:QUAT">>>> \o Ids(e.vids) \o Nums(e.est) \o Nums(e.info)
    [] e.cls = "lm" /\ e.kind = "SE2" -> <<<<"tag", "EDGE_SE2_XY">>>> \o Ids(e.vids) \o Nums(e.est) \o Nums(e.info)
    [] e.cls = "lm" /\ e.kind = "SE3" -> <<<<"tag", "EDGE_SE3_TRACKXYZ">>>> \o Ids(e.vids) \o <<<<"id", e.offid>>>> \o Nums(e.est) \o Nums(e.info)
ExportLines(g) == [j \in 1..Len(g.params) |-> ParamLine(g.params[j])]
                  \o [j \in 1..Len(g.verts) |-> VertexLine(g.verts[j])]
                  \o [j \in 1..Len(g.edges) |-> EdgeLine(g.edges[j])]
\* content the format cannot express is refused with an error rather than written differently
Export(g) == IF ~Expressible(g) THEN [refused |-> TRUE, lines |-> <<>>] ELSE [refused |-> FALSE, lines |-> ExportLines(g)]

\* ---------- import ----------
\* A parsed number is [s |-> symbol, via |-> "id" | "wrap" | "norm"]: "wrap" = SE(2) angle re-wrapped, "norm" = component of a re-normalised quaternion.
Via(s, how) == [j \in 1..Len(s) |-> [s |-> s[j], via |-> how[j]]]
Plain(n) == [j \in 1..n |-> "id"]
Sub(s, a, b) == [j \in 1..(b - a + 1) |-> s[a + j - 1]]
TokVals(line, a, b) == [j \in 1..(b - a + 1) |-> line[a + j - 1][2]]
\* registry: function from <<tag, id>> to the parsed numbers of a parameter line
\* result of parsing one line: [what |-> "vertex"|"edge"|"param"|"warn"|"skip", obj |-> ...]
ParseLine(line, reg, custom) ==
  IF line = <<>> THEN [what |-> "skip"]                                         \* blank line
  ELSE IF line[1][1] # "tag" THEN [what |-> "warn"]                             \* junk
  ELSE LET tag == line[1][2]  L == Len(line) IN
  IF tag \in VTags THEN
     LET k == KindOfVTag(tag)  nn == FDim(k) IN
     [what |-> "vertex", obj |-> [id |-> line[2][2], kind |-> k,
        nums |-> Via(TokVals(line, 3, 2 + nn), IF k = "SE2" THEN <<"id", "id", "wrap">> ELSE Plain(nn))]]
  ELSE IF tag \in custom THEN                                                  \* registered custom edge types are consulted before the built-in edge tags
     [what |-> "edge", obj |-> [cls |-> "custom", kind |-> tag, vids |-> TokVals(line, 2, 3),
        est |-> Via(TokVals(line, 4, 4), Plain(1)), info |-> Via(TokVals(line, 5, L), Plain(L - 4)), n |-> 1, offid |-> -1, off |-> <<>>]]
  ELSE IF tag = "EDGE_SE2" THEN
     [what |-> "edge", obj |-> [cls |-> "odo", kind |-> "SE2", vids |-> TokVals(line, 2, 3),
        est |-> Via(TokVals(line, 4, 6), <<"id", "id", "wrap">>), info |-> Via(TokVals(line, 7, 12), Plain(6)), n |-> 3, offid |-> -1, off |-> <<>>]]
  ELSE IF tag = "EDGE_SE3:QUAT" THEN
     [what |-> "edge", obj |-> [cls |-> "odo", kind |-> "SE3", vids |-> TokVals(line, 2, 3),
        est |-> Via(TokVals(line, 4, 10), <<"id", "id", "id", "norm", "norm", "norm", "norm">>), info |-> Via(TokVals(line, 11, 31), Plain(21)), n |-> 6,
        offid |-> -1, off |-> <<>>]]
  ELSE IF tag = "EDGE_SE2_XY" THEN
     [what |-> "edge", obj |-> [cls |-> "lm", kind |-> "SE2", vids |-> TokVals(line, 2, 3),
        est |-> Via(TokVals(line, 4, 5), Plain(2)), info |-> Via(TokVals(line, 6, 8), Plain(3)), n |-> 2, offid |-> 0, off |-> "identity"]]
  ELSE IF tag = "EDGE_SE3_TRACKXYZ" THEN
     [what |-> "edge", obj |-> [cls |-> "lm", kind |-> "SE3", vids |-> TokVals(line, 2, 3),
        est |-> Via(TokVals(line, 5, 7), Plain(3)), info |-> Via(TokVals(line, 8, 13), Plain(6)), n |-> 3, offid |-> line[4][2],
        off |-> reg[<<"PARAMS_SE3OFFSET", line[4][2]>>]]]                       \* resolved through a parameter read EARLIER in the file
  ELSE IF tag = "PARAMS_SE2OFFSET" THEN
     [what |-> "param", obj |-> [tag |-> tag, id |-> line[2][2], nums |-> Via(TokVals(line, 3, 5), <<"id", "id", "wrap">>)]]
  ELSE IF tag = "PARAMS_SE3OFFSET" THEN
     [what |-> "param", obj |-> [tag |-> tag, id |-> line[2][2], nums |-> Via(TokVals(line, 3, 9), Plain(7))]]
  ELSE [what |-> "warn"]

\* fold over the lines: line-local (a line is parsed from its own tokens and the registry only) and order-preserving
RECURSIVE ParseFrom(_,_,_,_)
ParseFrom(file, j, acc, custom) ==
  IF j > Len(file) THEN acc
  ELSE LET r == ParseLine(file[j], acc.reg, custom) IN
       ParseFrom(file, j + 1,
         CASE r.what = "vertex" -> [acc EXCEPT !.verts = Append(@, r.obj)]
           [] r.what = "edge" -> [acc EXCEPT !.edges = Append(@, r.obj)]
           [] r.what = "param" -> [acc EXCEPT !.params = Append(@, r.obj), !.reg = (<<r.obj.tag, r.obj.id>> :> r.obj.nums) @@ @]
           [] r.what = "warn" -> [acc EXCEPT !.warnings = @ + 1]
           [] OTHER -> acc, custom)
EmptyReg == [x \in {} |-> <<>>]
ParseC(file, custom) == ParseFrom(file, 1, [verts |-> <<>>, edges |-> <<>>, params |-> <<>>, reg |-> EmptyReg, warnings |-> 0], custom)
Parse(file) == ParseC(file, {})

\* ---------- round trip (T9) ----------
Strip(s) == [j \in 1..Len(s) |-> s[j].s]
\* registry content in first-definition order with the LAST value per key (a dictionary): what a second export writes
SameGraph(g, p) ==
  /\ Len(p.verts) = Len(g.verts) /\ Len(p.edges) = Len(g.edges)
  /\ \A j \in DOMAIN g.verts : p.verts[j].id = g.verts[j].id /\ p.verts[j].kind = g.verts[j].kind /\ Strip(p.verts[j].nums) = g.verts[j].nums
  /\ \A j \in DOMAIN g.edges :
       LET a == g.edges[j]  b == p.edges[j] IN
       /\ a.cls = b.cls /\ a.kind = b.kind /\ a.vids = b.vids /\ Strip(b.est) = a.est /\ Strip(b.info) = a.info /\ a.n = b.n
       /\ IF a.cls = "lm" /\ a.kind = "SE3" THEN b.offid = a.offid /\ Strip(b.off) = a.off
          ELSE IF a.cls = "lm" THEN b.off = "identity" ELSE TRUE
  /\ p.warnings = 0
\* well-formed: every SE(3) landmark edge refers to a parameter of the registry that carries exactly its offset
WellFormed(g) == \A n \in DOMAIN g.edges : (g.edges[n].cls = "lm" /\ g.edges[n].kind = "SE3") =>
                   \E j \in DOMAIN g.params : g.params[j].tag = "PARAMS_SE3OFFSET" /\ g.params[j].id = g.edges[n].offid /\ g.params[j].nums = g.edges[n].off
RoundTrip(g) == (Expressible(g) /\ WellFormed(g)) => SameGraph(g, Parse(Export(g).lines))
=====================================================================
