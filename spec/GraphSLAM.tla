---------------------------- MODULE GraphSLAM ----------------------------
(* System specification of python-graphslam at the level of its public API.           *)
(*                                                                                    *)
(* State: the vertex list and the edge list of one Graph object (list ORDER matters:  *)
(* unknown offsets and "first pose" are positional), whether construction succeeded,  *)
(* and the last observation.  Numbers are opaque tokens here (digests of the stored   *)
(* float64 data): this module states WHO MAY CHANGE WHAT AND WHEN - binding by id,    *)
(* acceptance/rejection of edges, frame conditions of every call, the optimizer's     *)
(* bookkeeping - while the meaning of the numbers is specified by Pose/Edge/Assembly. *)
(*                                                                                    *)
(*   vertex == [id, kind, fixed, pose]     pose: token                                *)
(*   edge   == [cls, vids, est, off, info, valid, num]                                *)
(*             cls in {"odo","lm","custom"}; est/off: kind name or "none"/"array"/   *)
(*             "float"; info = <<rows, cols>>; valid: verdict of a custom class's own *)
(*             is_valid; num: token for all numbers of the edge                       *)
EXTENDS Kinds, OptOutcome, FiniteSets, TLC
VARIABLES verts, edges, status, obs
vars == <<verts, edges, status, obs>>

\* ---------- construction: bind by id, then type-check ----------
IndexOf(id, vs) == IF \E j \in DOMAIN vs : vs[j].id = id THEN CHOOSE j \in DOMAIN vs : vs[j].id = id ELSE 0
Bind(e, vs) == [j \in DOMAIN e.vids |-> IndexOf(e.vids[j], vs)]
Known(e, vs) == \A j \in DOMAIN e.vids : IndexOf(e.vids[j], vs) # 0
KindsOf(e, vs) == [j \in DOMAIN e.vids |-> vs[IndexOf(e.vids[j], vs)].kind]
EdgeOK(e, vs) == /\ Known(e, vs)
                 /\ IF e.cls = "custom" THEN e.valid ELSE EdgeValid(e.cls, KindsOf(e, vs), e.est, e.off, e.info)
Accepts(vs, es) == \A n \in DOMAIN es : EdgeOK(es[n], vs)
Bind2(e, vs) == IF Known(e, vs) THEN Bind(e, vs) ELSE <<>>
UniqueIds(vs) == \A a, b \in DOMAIN vs : vs[a].id = vs[b].id => a = b

\* offset of vertex i's unknowns in the gradient / Hessian: prefix sum of the compact dimensions in LIST order
RECURSIVE GradientIndex(_,_)
GradientIndex(vs, i) == IF i = 1 THEN 0 ELSE GradientIndex(vs, i - 1) + CDim(vs[i - 1].kind)
Construct(vs, es) ==
  /\ status = "unbuilt"
  /\ UniqueIds(vs)
  /\ verts' = vs /\ edges' = es
  /\ status' = IF Accepts(vs, es) THEN "ready" ELSE "rejected"
  /\ obs' = [op |-> "Construct", raised |-> ~Accepts(vs, es),
             bind |-> [n \in DOMAIN es |-> IF Known(es[n], vs) THEN Bind(es[n], vs) ELSE <<>>]]

\* ---------- queries: nothing but the observation changes ----------
Queries == {"calc_chi2", "edge_error", "edge_chi2", "edge_jacobians", "edge_contribs", "equals", "to_g2o", "plot", "vertex_to_g2o", "edge_to_g2o",
            "pose_ops", "pose_copy", "vertex_equals", "edge_equals", "edge_plot", "edge_numjac"}
QueryEffect(q) == status = "ready" /\ q \in Queries /\ UNCHANGED <<verts, edges, status>>
Query(q) == QueryEffect(q) /\ obs' = [op |-> q]

\* ---------- user-level mutation of flags ----------
SetFixedEffect(i, b) ==
  /\ status = "ready" /\ i \in DOMAIN verts
  /\ verts' = [verts EXCEPT ![i].fixed = b]
  /\ UNCHANGED <<edges, status>>
SetFixed(i, b) == SetFixedEffect(i, b) /\ obs' = [op |-> "SetFixed"]

\* ---------- user-level edits between calls ----------
\* `Vertex.pose`, `edge.estimate` and `edge.information` are public attributes: a session may move a vertex (a new initial guess, also for
\* a fixed vertex) or change a measurement between two calls.  Nothing else changes, and - because the abstract state below is ALL the state
\* the specification has - every later call behaves as on a graph freshly built from the edited numbers (no cache survives an edit).
SetPoseEffect(i, tok) ==
  /\ status = "ready" /\ i \in DOMAIN verts
  /\ verts' = [verts EXCEPT ![i].pose = tok]
  /\ UNCHANGED <<edges, status>>
SetPose(i, tok) == SetPoseEffect(i, tok) /\ obs' = [op |-> "SetPose"]
SetMeasEffect(n, tok) ==
  /\ status = "ready" /\ n \in DOMAIN edges
  /\ edges' = [edges EXCEPT ![n].num = tok]
  /\ UNCHANGED <<verts, status>>
SetMeas(n, tok) == SetMeasEffect(n, tok) /\ obs' = [op |-> "SetMeas"]

\* ---------- optimize(tol, max_iter, fix_first_pose, verbose) ----------
\* st: stop criterion per iteration of THIS call (st[k], k in 1..maxIter, between the states after k-1 and k updates);
\* np: the pose tokens after the call (any tokens for free vertices: their meaning is the Gauss-Newton step of Assembly)
FixedAfter(vs, fixFirst) == [i \in DOMAIN vs |-> vs[i].fixed \/ (fixFirst /\ i = 1)]
OptCallEffect(maxIter, fixFirst, np) ==
  /\ status = "ready" /\ Len(verts) >= 1 /\ maxIter >= 1
  /\ LET fx == FixedAfter(verts, fixFirst) IN
       verts' = [i \in DOMAIN verts |-> [verts[i] EXCEPT !.fixed = fx[i], !.pose = IF fx[i] THEN @ ELSE np[i]]]
  /\ UNCHANGED <<edges, status>>
OptCall(maxIter, fixFirst, verbose, st, np) ==                   \* `verbose` occurs in no primed expression
  OptCallEffect(maxIter, fixFirst, np) /\ obs' = [op |-> "OptCall", rep |-> Outcome(st, 0, maxIter)]

\* ---------- optimize() that does NOT return: a user-defined edge raises while iteration k is being assembled ----------
\* The exception reaches the caller.  What is left behind is the state of a call cut after k-1 complete iterations: the flag of the first vertex
\* was set before anything else (fix_first_pose), the free vertices carry the updates of the complete iterations (all of an iteration's updates or
\* none: the assembly precedes them), fixed vertices and everything else are untouched - and since there is no state but this one, the session
\* continues from it like from any other state.
OptAbortEffect(fixFirst, np) == OptCallEffect(1, fixFirst, np)
OptAbort(fixFirst, np) == OptAbortEffect(fixFirst, np) /\ obs' = [op |-> "OptAbort"]

\* ---------- g := Graph.from_g2o(file written by g.to_g2o(file)): the session continues on the re-imported graph ----------
\* What the file format carries decides the effect (the meaning of the numbers is G2O's business):
\*  - it has NO field for the `fixed` flag: every vertex of the re-imported graph is free (keep = FALSE).  No listed property speaks about
\*    flags across a file, so an implementation whose files DO carry them completely (keep = TRUE) is admitted as well; what is excluded
\*    is a round trip that keeps some flags and drops or invents others;
\*  - ids, kinds and the ORDER of the vertex list survive; positions of R^n vertices survive bitwise (pose token unchanged), headings may
\*    be re-wrapped and quaternions re-normalised (np: the pose tokens read back);
\*  - an edge whose class has no writer (user-defined classes inherit to_g2o() = None) is not in the file: it is dropped, the others keep
\*    their order, named ids, types and shapes (ne: their number tokens read back: measurements may be re-wrapped / re-normalised and only
\*    the upper triangle of an information matrix is in the file);
\*  - R^n odometry edges cannot be expressed: the export MUST refuse; a landmark edge may be refused (its offset parameter may be missing
\*    from the graph's registry); a refusal changes nothing.
Written(es) == SelectSeq(es, LAMBDA e : e.cls # "custom")
MustRefuse == \E n \in DOMAIN edges : edges[n].cls = "odo" /\ edges[n].est \in {"R2", "R3"}
MayRefuse == MustRefuse \/ \E n \in DOMAIN edges : edges[n].cls = "lm"
ReloadEffect(raised, keep, np, ne) ==
  /\ status = "ready"
  /\ IF raised THEN MayRefuse /\ UNCHANGED <<verts, edges, status>>
     ELSE /\ ~MustRefuse
          /\ verts' = [i \in DOMAIN verts |-> [verts[i] EXCEPT !.fixed = IF keep THEN @ ELSE FALSE, !.pose = IF verts[i].kind \in {"R2", "R3"} THEN @ ELSE np[i]]]
          /\ LET w == Written(edges) IN
               edges' = [n \in DOMAIN w |-> [w[n] EXCEPT !.num = ne[n]]]
          /\ status' = status
Reload(raised, keep, np, ne) == ReloadEffect(raised, keep, np, ne) /\ obs' = [op |-> "Reload", raised |-> raised]

Init == verts = <<>> /\ edges = <<>> /\ status = "unbuilt" /\ obs = [op |-> "none"]

\* ---------- properties (checked on bounded instances by MC_GraphSLAM; imposed on recorded executions by Trace_GraphSLAM) ----------
SameShape == Len(verts') = Len(verts) /\ \A i \in DOMAIN verts : verts'[i].id = verts[i].id /\ verts'[i].kind = verts[i].kind
\* a vertex that is fixed after a step did not move in that step (every outcome of optimize, every query; nothing is fixed after a reload);
\* only the user's own SetPose moves a fixed vertex (and a file round trip that carried flags may re-wrap / re-normalise its numbers)
FixedFrozen == [][status = "ready" => /\ SameShape
                                      /\ obs'.op \notin {"SetPose", "Reload"} => \A i \in DOMAIN verts : verts'[i].fixed => verts'[i].pose = verts[i].pose]_vars
\* flags are only ever changed by SetFixed, or set (never cleared) on the first vertex by optimize
FlagsRule == [][status = "ready" /\ obs'.op # "SetFixed" =>
                 \A i \in DOMAIN verts : verts'[i].fixed = verts[i].fixed \/ (obs'.op \in {"OptCall", "OptAbort"} /\ i = 1 /\ verts'[i].fixed)
                                                                        \/ (obs'.op = "Reload" /\ ~verts'[i].fixed)]_vars
\* edges, ids, kinds and orders never change after construction -- except that a file round trip drops the edges no writer exists for
\* and may change number tokens, and that the user's SetMeas changes the number token of one edge
Skeleton(es) == [n \in DOMAIN es |-> [es[n] EXCEPT !.num = 0]]
StructureFrozen == [][status = "ready" => /\ SameShape /\ status' = status
                                          /\ IF obs'.op = "Reload" THEN Skeleton(edges') \in {Skeleton(edges), Skeleton(Written(edges))}
                                             ELSE IF obs'.op = "SetMeas" THEN Skeleton(edges') = Skeleton(edges)
                                             ELSE edges' = edges]_vars
\* poses are written by the optimizer (free vertices only), by a file round trip and by the user's SetPose - by nothing else
PosesRule == [][status = "ready" /\ obs'.op \notin {"OptCall", "OptAbort", "Reload", "SetPose"} => \A i \in DOMAIN verts : verts'[i].pose = verts[i].pose]_vars
QueriesPure == [][obs'.op \in Queries => UNCHANGED <<verts, edges, status>>]_vars
\* every accepted edge is attached to the vertices whose ids it names, whatever the list order
BoundById == status = "ready" => \A n \in DOMAIN edges : \A j \in DOMAIN edges[n].vids :
                 obs.op = "Construct" => verts[obs.bind[n][j]].id = edges[n].vids[j]
RejectedIsFinal == [][status = "rejected" => UNCHANGED <<verts, edges, status>>]_vars
==========================================================================
