---------------------------- MODULE OptControl ----------------------------
(* Properties of the control skeleton of Graph.optimize (algorithm: module OptLoop).  *)
(*                                                                                    *)
(* Checked by TLC for every Stop, every start state and every max_iter <= MaxIter:    *)
(*   ReportCorrect : at Ret the report equals the closed form Outcome                 *)
(*   Termination   : the loop always returns                                          *)
(* The closed form Outcome is what the system specification (GraphSLAM!OptCall) and   *)
(* the trace specification use, so the grain of atomicity "one call = one action" is  *)
(* justified inside the specification.  OptControlProofs proves, with TLAPS and for   *)
(* every bound, the part of ReportCorrect that needs no recursion.                    *)
EXTENDS OptLoop, OptOutcome, TLC


ReportCorrect ==
  pc = "Ret" =>
    LET o == Outcome(stop, start, maxIter) IN
      /\ numIter = o.numIter /\ converged = o.converged /\ Len(results) = o.lenResults
      /\ results[Len(results)].complete = o.lastComplete
      /\ \A j \in 1..Len(results) : (j < Len(results)) => results[j].complete
      /\ \A j \in 1..o.numIter : results[j].chi2 = o.chi2s[j]
      /\ initial = o.initial /\ final = o.final /\ applied = o.applied /\ rows = o.rows
      /\ final = applied                           \* final_chi2 is the chi^2 of the returned graph

\* Splitting theorem (no hidden state between calls): if a single call with max_iter = n performs n iterations
\* (no early stop), then performing it as consecutive calls with max_iter = p[1], ..., p[r], p[1]+...+p[r] = n, ends in the
\* same state, with the same final chi^2 and the same `converged` flag reported by the last call.
RECURSIVE Compositions(_)
Compositions(n) == IF n = 0 THEN { << >> } ELSE UNION { { <<k>> \o c : c \in Compositions(n - k) } : k \in 1..n }     \* 2^(n-1) sequences
RECURSIVE RunSplit(_,_,_)
RunSplit(st, s, parts) == IF Len(parts) = 1 THEN Outcome(st, s, parts[1])
                          ELSE RunSplit(st, Outcome(st, s, parts[1]).applied, Tail(parts))
SplitTheorem ==
  \A st \in [1..(MaxStart + MaxIter) -> BOOLEAN] : \A s \in 0..MaxStart : \A n \in 1..MaxIter :
    FirstStop(st, s, 1, n) = 0 =>
      \A parts \in Compositions(n) :
        LET one == Outcome(st, s, n)  last == RunSplit(st, s, parts)
        IN last.applied = one.applied /\ last.converged = one.converged /\ last.final = one.final
\* verbose occurs nowhere but in `rows`: nothing else can depend on it.
==========================================================================
