---------------------------- MODULE MC_OptControl ----------------------------
EXTENDS OptControl
ASSUME SplitTheorem
\* model mutant self-test: a report that counts the incomplete last iteration must be caught (vacuity guard)
MutantOutcome(st, s, m) == LET o == Outcome(st, s, m) IN [o EXCEPT !.numIter = IF o.lastComplete THEN @ ELSE @ + 1]
MutantReport == pc = "Ret" => numIter = MutantOutcome(stop, start, maxIter).numIter
==============================================================================
