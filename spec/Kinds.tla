---------------------------- MODULE Kinds ----------------------------
(* Pose kinds, their dimensions, and the typing rules of edges (what Graph construction *)
(* must accept and what it must reject).                                               *)
EXTENDS Integers, Sequences
Kinds == {"R2", "R3", "SE2", "SE3"}
Dim(k)  == CASE k = "R2" -> 2 [] k = "R3" -> 3 [] k = "SE2" -> 2 [] k = "SE3" -> 3     \* spatial dimension
CDim(k) == CASE k = "R2" -> 2 [] k = "R3" -> 3 [] k = "SE2" -> 3 [] k = "SE3" -> 6     \* compact (tangent) dimension
FDim(k) == CASE k = "R2" -> 2 [] k = "R3" -> 3 [] k = "SE2" -> 3 [] k = "SE3" -> 7     \* stored dimension
IsPoint(k) == k \in {"R2", "R3"}

\* est / off: a kind name, or "none" / "array" / "float" for values that are not poses; info: <<rows, cols>> (cols = 0: one-dimensional)
OdoValid(vkinds, est, info) ==
  /\ Len(vkinds) = 2 /\ vkinds[1] \in Kinds /\ vkinds[2] = vkinds[1] /\ est = vkinds[1]
  /\ info = <<CDim(vkinds[1]), CDim(vkinds[1])>>
LmValid(vkinds, est, off, info) ==
  /\ Len(vkinds) = 2 /\ vkinds[1] \in Kinds /\ vkinds[2] \in Kinds
  /\ IsPoint(vkinds[2]) /\ Dim(vkinds[1]) = Dim(vkinds[2])
  /\ off = vkinds[1] /\ est = vkinds[2]
  /\ info = <<CDim(vkinds[2]), CDim(vkinds[2])>>
EdgeValid(cls, vkinds, est, off, info) ==
  CASE cls = "odo" -> OdoValid(vkinds, est, info)
    [] cls = "lm"  -> LmValid(vkinds, est, off, info)
=====================================================================
