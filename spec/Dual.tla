---------------------------- MODULE Dual ----------------------------
(* First-order dual numbers  v + sum_i g[i] eps_i  over Q with K tangent directions:  *)
(* forward-mode differentiation carried out exactly.  K = 0 gives plain rationals.    *)
EXTENDS Q
CONSTANT K
Vec(f) == TLCEval(f)
DZ == Vec([i \in 1..K |-> QI(0)])
DC(q) == [v |-> q, g |-> DZ]
DI(i) == DC(QI(i))
DR(n,d) == DC(QR(n,d))
DEps(k) == [v |-> QI(0), g |-> Vec([i \in 1..K |-> IF i = k THEN QI(1) ELSE QI(0)])]
DVar(q,k) == [v |-> q, g |-> DEps(k).g]
DAdd(a,b) == [v |-> QAdd(a.v,b.v), g |-> Vec([i \in 1..K |-> QAdd(a.g[i], b.g[i])])]
DSub(a,b) == [v |-> QSub(a.v,b.v), g |-> Vec([i \in 1..K |-> QSub(a.g[i], b.g[i])])]
DNeg(a) == [v |-> QNeg(a.v), g |-> Vec([i \in 1..K |-> QNeg(a.g[i])])]
DMul(a,b) == [v |-> QMul(a.v,b.v), g |-> Vec([i \in 1..K |-> QAdd(QMul(a.v, b.g[i]), QMul(a.g[i], b.v))])]
DScale(q,a) == [v |-> QMul(q,a.v), g |-> Vec([i \in 1..K |-> QMul(q, a.g[i])])]
\* sqrt of a dual with perfect-square, non-zero value:  d sqrt(x) = dx / (2 sqrt x)
DSqrt(a) == LET r == QSqrt(a.v) IN [v |-> r, g |-> Vec([i \in 1..K |-> QDiv(a.g[i], QMul(QI(2), r))])]
=====================================================================
