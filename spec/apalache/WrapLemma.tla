---------------------------- MODULE WrapLemma ----------------------------
(* Lemma T3 (angle wrap) for ALL integers, discharged by Apalache:                    *)
(* with angles measured in units of pi/N,  Wrap(m) = ((m + N) mod 2N) - N  lies in    *)
(* [-N, N), is congruent to m modulo 2N, and is idempotent.                           *)
(*   apalache-mc check --init=Init --next=Next --inv=Inv --length=1 WrapLemma.tla     *)
EXTENDS Integers
N == 180
VARIABLE
  \* @type: Int;
  m
Wrap(x) == ((x + N) % (2 * N)) - N
Init == m \in Int
Next == UNCHANGED m
Inv == LET w == Wrap(m) IN
         /\ -N <= w /\ w < N
         /\ (w - m) % (2 * N) = 0
         /\ Wrap(w) = w
==========================================================================
