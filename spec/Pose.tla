---------------------------- MODULE Pose ----------------------------
(* The four pose groups of python-graphslam as rigid motions, written independently   *)
(* of the library's hand-expanded formulas.                                           *)
(*   pose == [k |-> kind, t |-> translation (tuple of duals), r |-> rotation]          *)
(*   kind "R2","R3": r = <<>>           (pure translation)                            *)
(*   kind "SE2"    : r = <<c, s>>       (cos, sin of the heading)                     *)
(*   kind "SE3"    : r = <<x, y, z, w>> (unit quaternion, Hamilton convention)        *)
(* Composition is rigid-motion composition, a (-) b == b^-1 (+) a, the point action   *)
(* is t + R v with R v computed by quaternion conjugation (SE3) / the 2x2 rotation.   *)
EXTENDS Dual, Kinds

a (+) b == DAdd(a,b)
a (-) b == DSub(a,b)
a ** b == DMul(a,b)
D0 == DI(0)
D1 == DI(1)


VAdd(u,v) == Vec([i \in 1..Len(u) |-> u[i] (+) v[i]])
VSub(u,v) == Vec([i \in 1..Len(u) |-> u[i] (-) v[i]])
VNeg(u)   == Vec([i \in 1..Len(u) |-> DNeg(u[i])])

\* ---- quaternions <<x,y,z,w>>, Hamilton product ----
QuatMul(p, q) == Vec(
  << (p[4]**q[1]) (+) (p[1]**q[4]) (+) (p[2]**q[3]) (-) (p[3]**q[2]),
     (p[4]**q[2]) (-) (p[1]**q[3]) (+) (p[2]**q[4]) (+) (p[3]**q[1]),
     (p[4]**q[3]) (+) (p[1]**q[2]) (-) (p[2]**q[1]) (+) (p[3]**q[4]),
     (p[4]**q[4]) (-) (p[1]**q[1]) (-) (p[2]**q[2]) (-) (p[3]**q[3]) >>)
Conj(q) == << DNeg(q[1]), DNeg(q[2]), DNeg(q[3]), q[4] >>
Rot3(q, v) == LET r == QuatMul(QuatMul(q, <<v[1],v[2],v[3],D0>>), Conj(q)) IN <<r[1],r[2],r[3]>>
Rot2(cs, v) == Vec(<< (cs[1]**v[1]) (-) (cs[2]**v[2]), (cs[2]**v[1]) (+) (cs[1]**v[2]) >>)

\* ---- rotation part, by kind ----
RotV(k, r, v) == CASE k = "SE2" -> Rot2(r, v) [] k = "SE3" -> Rot3(r, v) [] OTHER -> v
RMul(k, r1, r2) == CASE k = "SE2" -> Vec(<< (r1[1]**r2[1]) (-) (r1[2]**r2[2]), (r1[2]**r2[1]) (+) (r1[1]**r2[2]) >>)
                     [] k = "SE3" -> QuatMul(r1, r2)
                     [] OTHER -> <<>>
RInv(k, r) == CASE k = "SE2" -> << r[1], DNeg(r[2]) >> [] k = "SE3" -> Conj(r) [] OTHER -> <<>>
RId(k) == CASE k = "SE2" -> <<D1, D0>> [] k = "SE3" -> <<D0,D0,D0,D1>> [] OTHER -> <<>>

\* ---- the group ----
Ident(k) == [k |-> k, t |-> Vec([i \in 1..Dim(k) |-> D0]), r |-> RId(k)]
Comp(a, b) == [k |-> a.k, t |-> VAdd(a.t, RotV(a.k, a.r, b.t)), r |-> RMul(a.k, a.r, b.r)]
PInv(a) == LET ri == RInv(a.k, a.r) IN [k |-> a.k, t |-> VNeg(RotV(a.k, ri, a.t)), r |-> ri]
Ominus(a, b) == Comp(PInv(b), a)                      \* a (-) b  ==  b^-1 (+) a
Act(p, v) == VAdd(p.t, RotV(p.k, p.r, v))             \* pose (+) point

\* ---- boxplus ----
\* first-order perturbation along the tangent directions k0+1 .. k0+CDim(k) (derivative at 0 of p [+] delta)
Pert(p, k0) ==
  CASE p.k = "SE2" -> Comp(p, [k |-> "SE2", t |-> <<DEps(k0+1), DEps(k0+2)>>, r |-> <<D1, DEps(k0+3)>>])
    [] p.k = "SE3" -> Comp(p, [k |-> "SE3", t |-> <<DEps(k0+1), DEps(k0+2), DEps(k0+3)>>, r |-> <<DEps(k0+4), DEps(k0+5), DEps(k0+6), D1>>])
    [] p.k = "R2"  -> [p EXCEPT !.t = <<p.t[1] (+) DEps(k0+1), p.t[2] (+) DEps(k0+2)>>]
    [] p.k = "R3"  -> [p EXCEPT !.t = <<p.t[1] (+) DEps(k0+1), p.t[2] (+) DEps(k0+2), p.t[3] (+) DEps(k0+3)>>]
\* the pose whose compact form is delta: dt translation, dr = <<c,s>> (SE2: cos/sin of the angle increment),
\* dr = <<x,y,z>> (SE3: vector part; scalar part sqrt(1-|dr|^2) must be rational), dr = <<>> (R^n)
ExpD(k, dt, dr) ==
  CASE k = "SE2" -> [k |-> k, t |-> dt, r |-> dr]
    [] k = "SE3" -> [k |-> k, t |-> dt, r |-> <<dr[1], dr[2], dr[3],
                       DSqrt(D1 (-) ((dr[1]**dr[1]) (+) (dr[2]**dr[2]) (+) (dr[3]**dr[3])))>>]
    [] OTHER -> [k |-> k, t |-> dt, r |-> <<>>]
Boxplus(p, dt, dr) == Comp(p, ExpD(p.k, dt, dr))

\* ---- homogeneous matrices (for the homomorphism theorem and to_matrix) ----
RotMat(p) == LET n == Dim(p.k)
                 E(j) == Vec([i \in 1..n |-> IF i = j THEN D1 ELSE D0])
                 cols == Vec([j \in 1..n |-> RotV(p.k, p.r, E(j))])
             IN Vec([i \in 1..n |-> Vec([j \in 1..n |-> cols[j][i]])])
Mat(p) == LET n == Dim(p.k) R == RotMat(p)
          IN Vec([i \in 1..n+1 |-> Vec([j \in 1..n+1 |->
                 IF i <= n /\ j <= n THEN R[i][j] ELSE IF i <= n THEN p.t[i] ELSE IF j = n+1 THEN D1 ELSE D0])])
RECURSIVE DSum(_,_)
DSum(f, n) == IF n = 0 THEN D0 ELSE DSum(f, n-1) (+) f[n]
MatMul(A, B) == LET n == Len(A) IN
   Vec([i \in 1..n |-> Vec([j \in 1..n |-> DSum([l \in 1..n |-> A[i][l] ** B[l][j]], n)])])

\* ---- normalisation of a (non-unit) integer quaternion with rational norm: same rotation, unit norm, non-negative scalar part ----
NormalizeQ(q) == LET n2 == q[1]*q[1] + q[2]*q[2] + q[3]*q[3] + q[4]*q[4]
                     n == ISqrt(n2)                          \* -1 if the norm is irrational (not generated)
                     s == IF q[4] >= 0 THEN 1 ELSE -1
                 IN [c \in 1..4 |-> QR(s * q[c], n)]

\* ---- equality of exact values ----
DEqV(a, b) == QEq(a.v, b.v)
VEqV(u, v) == Len(u) = Len(v) /\ \A i \in 1..Len(u) : DEqV(u[i], v[i])
MEqV(A, B) == Len(A) = Len(B) /\ \A i \in 1..Len(A) : VEqV(A[i], B[i])
\* same rigid motion: q and -q are the same rotation
SameMotion(a, b) == /\ a.k = b.k /\ VEqV(a.t, b.t)
                    /\ \/ VEqV(a.r, b.r)
                       \/ a.k = "SE3" /\ VEqV(a.r, VNeg(b.r))
UnitRot(p) == CASE p.k = "SE2" -> QEq(((p.r[1]**p.r[1]) (+) (p.r[2]**p.r[2])).v, QI(1))
                [] p.k = "SE3" -> QEq(((p.r[1]**p.r[1]) (+) (p.r[2]**p.r[2]) (+) (p.r[3]**p.r[3]) (+) (p.r[4]**p.r[4])).v, QI(1))
                [] OTHER -> TRUE

\* ---- lifting integer data to poses ----
\* tt: tuple of integers; rr: <<>> | <<c,s,den>> | <<x,y,z,w,den>> (integers)
Lift(k, tt, rr) ==
  [k |-> k, t |-> Vec([i \in 1..Len(tt) |-> DI(tt[i])]),
   r |-> CASE k = "SE2" -> <<DR(rr[1], rr[3]), DR(rr[2], rr[3])>>
           [] k = "SE3" -> <<DR(rr[1], rr[5]), DR(rr[2], rr[5]), DR(rr[3], rr[5]), DR(rr[4], rr[5])>>
           [] OTHER -> <<>>]
\* value part only (for printing)
VOut(u) == [i \in 1..Len(u) |-> QCanon(u[i].v)]
POut(p) == [k |-> p.k, t |-> VOut(p.t), r |-> VOut(p.r)]
MOut(A) == [i \in 1..Len(A) |-> VOut(A[i])]
=====================================================================
