---------------------------- MODULE EqModel ----------------------------
(* What `equals(other, tol)` must answer.  A comparison case is a base object of some *)
(* class, one mutation applied to a copy of it, a tolerance, and a direction.         *)
(*   copy                      -> TRUE                                                *)
(*   perturb one component by 10^e * tol * scale (scale = max(norm of the part, tol)) *)
(*        e <= -3 -> TRUE,  e >= 3 -> FALSE,  in between: the tolerance band (either) *)
(*   any structural difference (id, kind/type, size, order, offset id, class)         *)
(*                             -> FALSE                                               *)
(* and the answer never depends on the direction outside the band; it is never an     *)
(* exception.                                                                         *)
EXTENDS Kinds, TLC
VARIABLES case, dir, verdict
vars == <<case, dir, verdict>>

PoseClasses   == { <<"pose", k>> : k \in Kinds }
VertexClasses == { <<"vertex", k>> : k \in Kinds }
OdoClasses    == { <<"odo", k>> : k \in Kinds }
LmClasses     == { <<"lm", k>> : k \in Kinds }          \* k = kind of the first vertex; second is the point kind of that dimension
CustomClasses == { <<"custom", "float">>, <<"custom", "array">> }
GraphClasses  == { <<"graph", k>> : k \in Kinds }
Classes == PoseClasses \cup VertexClasses \cup OdoClasses \cup LmClasses \cup CustomClasses \cup GraphClasses

Parts(c) == CASE c[1] \in {"pose", "vertex"} -> {"pose"}
              [] c[1] \in {"odo", "custom"} -> {"info", "est"}
              [] c[1] = "lm" -> {"info", "est", "off"}
              [] c[1] = "graph" -> {"vpose", "einfo", "eest"}
Structural(c) == CASE c[1] = "pose" -> {"kind"}
                   [] c[1] = "vertex" -> {"id", "kind"}
                   [] c[1] = "odo" -> {"vid", "swapvids", "estkind", "infoshape", "class"}
                   [] c[1] = "custom" -> {"vid", "swapvids", "shortvids", "infoshape", "class", "esttype"}
                   [] c[1] = "lm" -> {"vid", "swapvids", "estkind", "infoshape", "class", "offkind", "offid", "offidnone"}
                   [] c[1] = "graph" -> {"dropedge", "dropvertex", "addvertex", "swapvertices", "movelandmark", "swapedges", "vid", "vkind", "eclass"}
Exponents == {-12, -9, -6, -3, 3, 4, 6} \cup {-1, 0, 1}      \* the last three lie in the band
Tols == {"1e-9", "1e-6", "1e-3"}
Positions == {"first", "mid", "last"}                     \* which component of the part is perturbed

\* "idform": the same ids handed over in another container (tuple, integer array): the same edge / graph
Expected(m) == CASE m.mut \in {"copy", "idform"} -> "T"
                 [] m.mut = "perturb" -> IF m.e <= -3 THEN "T" ELSE IF m.e >= 3 THEN "F" ELSE "either"
                 [] OTHER -> "F"

Init == /\ dir = "none" /\ verdict = "none"
        /\ \E c \in Classes, t \in Tols :
             \/ case = [cls |-> c, mut |-> "copy", part |-> "-", pos |-> "-", e |-> 0, tol |-> t]
             \/ \E p \in Parts(c), q \in Positions, x \in Exponents : case = [cls |-> c, mut |-> "perturb", part |-> p, pos |-> q, e |-> x, tol |-> t]
             \/ \E s \in Structural(c) : case = [cls |-> c, mut |-> s, part |-> "-", pos |-> "-", e |-> 0, tol |-> t]
             \/ c[1] \in {"odo", "lm", "custom", "graph"} /\ case = [cls |-> c, mut |-> "idform", part |-> "-", pos |-> "-", e |-> 0, tol |-> t]
             \/ \E c2 \in Classes : c2 # c /\ c2[1] = c[1] /\ c[1] # "custom" /\ case = [cls |-> c, mut |-> "other", part |-> c2[2], pos |-> "-", e |-> 0, tol |-> t]
Compare(d) == dir = "none" /\ dir' = d /\ verdict' = Expected(case) /\ case' = case
Next == Compare("xy") \/ Compare("yx")
Spec == Init /\ [][Next]_vars
\* totality of the table and direction independence (by construction of Expected; kept as a guard against edits)
Total == dir # "none" => verdict \in {"T", "F", "either"}
========================================================================
