---------------------------- MODULE Assembly ----------------------------
(* The normal equations of one Gauss-Newton iteration, exactly.                       *)
(*   b = sum_edges J^T W e          H = sum_edges J^T W J                             *)
(* with the unknowns of vertex i placed at offset sum_{i' < i} cdim(i') in LIST ORDER,*)
(* every edge contributing to the blocks of the vertices it NAMES (in the order it    *)
(* names them - an edge may name a later vertex first), parallel edges adding up, and *)
(* fixed vertices removed (the reduced problem: fixed poses are constants).           *)
(* SE(2) odometry errors contain the angle atom a_k = atan2(s,c): b and chi^2 are      *)
(* carried as forms  b = b0 + sum_k a_k B1[k],  chi2 = c0 + sum_k (c1[k] a_k + c2[k] a_k^2).  *)
(* Custom edge families (numerical Jacobians in the library, exact ones here):        *)
(*   prior   : compact(p (-) z)                 relpose : the odometry error          *)
(*   mid     : pos(p3) - (pos(p1)+pos(p2))/2 - z   range : |pos(p1)-pos(p2)| - z       *)
EXTENDS Edge

\* ---------- per-edge evaluation ----------
CompactRows(d, conv) == CompactRowsC(d, conv)
\* a vertex is given by integer lattice data (t, r) or by exact rationals (tq, rq) - the latter for transformed graphs
VPose(v) == IF "tq" \in DOMAIN v
            THEN [k |-> v.k, t |-> Vec([c \in 1..Len(v.tq) |-> DC(v.tq[c])]), r |-> Vec([c \in 1..Len(v.rq) |-> DC(v.rq[c])])]
            ELSE Lift(v.k, v.t, v.r)
RECURSIVE OffsetIn(_,_,_)
OffsetIn(kinds, j, acc) == IF j = 1 THEN acc ELSE OffsetIn(Tail(kinds), j - 1, acc + CDim(kinds[1]))
\* poses of the vertices an edge names, each perturbed along its own block of tangent directions
EdgePoses(g, e) == LET ks == [j \in 1..Len(e.vs) |-> g.verts[e.vs[j]].k]
                   IN [j \in 1..Len(e.vs) |-> LET v == g.verts[e.vs[j]] IN Pert(VPose(v), OffsetIn(ks, j, 0))]
EdgeErr(g, e) ==
  LET P == EdgePoses(g, e) IN
  CASE e.cls = "odo" -> CompactRows(OdoDelta(P[1], P[2], Lift(P[1].k, e.tz, e.rz)), g.conv)
    [] e.cls = "relpose" -> CompactRows(OdoDelta(P[1], P[2], Lift(P[1].k, e.tz, e.rz)), "raw")      \* user-defined: the formula as the user wrote it
    [] e.cls = "lm" -> LmErrVec(P[1], P[2], Lift(P[1].k, e.toff, e.roff), Lift(P[2].k, e.tz, <<>>))
    [] e.cls = "prior" -> CompactRows(Ominus(P[1], Lift(P[1].k, e.tz, e.rz)), "raw")
    [] e.cls = "mid" -> Vec([c \in 1..Len(P[3].t) |->
                          (P[3].t[c] (-) DScale(<<1,2>>, P[1].t[c] (+) P[2].t[c])) (-) DI(e.tz[c])])
    [] e.cls = "range" -> LET d == VSub(P[1].t, P[2].t)
                              s2 == DSum([c \in 1..Len(d) |-> d[c] ** d[c]], Len(d))
                          IN IF QIsSquare(s2.v) /\ ~QIsZero(s2.v) THEN << DSqrt(s2) (-) DI(e.tz[1]) >>
                             ELSE Assert(FALSE, "range edge: the separation is not a non-zero perfect square (not on the lattice)")

\* scalar part of the SE(3) error quaternion of an odometry-type edge (1 otherwise): its sign separates the two conventions, 0 = half turn
EdgeW(g, e) == IF e.cls = "odo" /\ g.verts[e.vs[1]].k = "SE3"
               THEN LET v1 == g.verts[e.vs[1]]  v2 == g.verts[e.vs[2]] IN
                    OdoErrW(VPose(v1), VPose(v2), Lift(v1.k, e.tz, e.rz))
               ELSE QI(1)
\* rational part of the error (0 in the slot of an angle atom) and the unit vector of the atom slot
ERat(err) == [i \in 1..Len(err) |-> IF IsAng(err[i]) THEN QI(0) ELSE err[i].v]
HasAtom(err) == \E i \in 1..Len(err) : IsAng(err[i])
AtomOf(err) == LET i == CHOOSE i \in 1..Len(err) : IsAng(err[i]) IN err[i].ang
AtomSlot(err) == CHOOSE i \in 1..Len(err) : IsAng(err[i])

\* ---------- global layout ----------
VKinds(g) == [i \in 1..Len(g.verts) |-> g.verts[i].k]
GOff(g, i) == OffsetIn(VKinds(g), i, 0)                     \* offset of vertex i's unknowns (list order)
NTot(g) == GOff(g, Len(g.verts)) + CDim(g.verts[Len(g.verts)].k)
IsFixed(g, i) == g.verts[i].fixed \/ (g.fixFirst /\ i = 1)
\* the vertex and local coordinate that global coordinate r belongs to
VertexOf(g, r) == CHOOSE i \in 1..Len(g.verts) : GOff(g, i) < r /\ r <= GOff(g, i) + CDim(g.verts[i].k)
FreeIdx(g) == SelectSeq([r \in 1..NTot(g) |-> r], LAMBDA r : ~IsFixed(g, VertexOf(g, r)))

\* per-edge package: error, local layout, evaluated once
EdgePack(g, e) ==
  LET err == EdgeErr(g, e)
      ks == [j \in 1..Len(e.vs) |-> g.verts[e.vs[j]].k]
  IN [err |-> err, lo |-> [j \in 1..Len(e.vs) |-> OffsetIn(ks, j, 0)], n |-> [j \in 1..Len(e.vs) |-> CDim(ks[j])],
      erat |-> ERat(err), atom |-> HasAtom(err)]

\* contribution of edge (pack p, edge e) to H[r][c] / b0[r] / B1[r]
LocalOf(g, e, p, r) ==    \* set of <<j, local coordinate>> : positions j of the edge naming the vertex that owns global coordinate r
  { <<j, r - GOff(g, e.vs[j])>> : j \in { j \in 1..Len(e.vs) : e.vs[j] = VertexOf(g, r) } }
HContrib(g, e, p, r, c) ==
  LET A == LocalOf(g, e, p, r)  Bc == LocalOf(g, e, p, c)  m == Len(p.err) IN
  IF A = {} \/ Bc = {} THEN QI(0) ELSE
  LET a == CHOOSE x \in A : TRUE  b == CHOOSE x \in Bc : TRUE IN      \* (an edge naming one vertex twice is outside the domain)
  QSumF([i \in 1..m |-> QMul(p.err[i].g[p.lo[a[1]] + a[2]],
                             QSumF([j \in 1..m |-> QMul(QI(e.W[i][j]), p.err[j].g[p.lo[b[1]] + b[2]])], m))], m)
BContrib(g, e, p, r, x) ==
  LET A == LocalOf(g, e, p, r)  m == Len(p.err) IN
  IF A = {} THEN QI(0) ELSE
  LET a == CHOOSE y \in A : TRUE IN
  QSumF([i \in 1..m |-> QMul(p.err[i].g[p.lo[a[1]] + a[2]], QSumF([j \in 1..m |-> QMul(QI(e.W[i][j]), x[j])], m))], m)

Unit(m, s) == [i \in 1..m |-> IF i = s THEN QI(1) ELSE QI(0)]

Normal(g) ==
  LET E == Len(g.edges)
      packs == TLCEval([n \in 1..E |-> EdgePack(g, g.edges[n])])
      free == FreeIdx(g)
      nf == Len(free)
      atomEdges == SelectSeq([n \in 1..E |-> n], LAMBDA n : packs[n].atom)
  IN [ n |-> NTot(g), free |-> free,
       H |-> [a \in 1..nf |-> [b \in 1..nf |-> QCanon(QSumF([n \in 1..E |-> HContrib(g, g.edges[n], packs[n], free[a], free[b])], E))]],
       b0 |-> [a \in 1..nf |-> QCanon(QSumF([n \in 1..E |-> BContrib(g, g.edges[n], packs[n], free[a], packs[n].erat)], E))],
       atoms |-> [k \in 1..Len(atomEdges) |-> packs[atomEdges[k]].err[AtomSlot(packs[atomEdges[k]].err)].ang],
       B1 |-> [k \in 1..Len(atomEdges) |-> LET n == atomEdges[k] IN
                 [a \in 1..nf |-> QCanon(BContrib(g, g.edges[n], packs[n], free[a], Unit(Len(packs[n].err), AtomSlot(packs[n].err))))]],
       chi2 |-> [n \in 1..E |-> Chi2Form(packs[n].err, g.edges[n].W)],
       errs |-> [n \in 1..E |-> EOut(packs[n].err)],
       ws |-> [n \in 1..E |-> EdgeW(g, g.edges[n])],
       jac |-> [n \in 1..E |-> JOut(packs[n].err)], conv |-> g.conv ]

\* gradient and chi^2 only (large graphs: stationarity of a designed optimum does not need H)
GradOnly(g) ==
  LET E == Len(g.edges)
      packs == TLCEval([n \in 1..E |-> EdgePack(g, g.edges[n])])
      free == FreeIdx(g)
      nf == Len(free)
      atomEdges == SelectSeq([n \in 1..E |-> n], LAMBDA n : packs[n].atom)
  IN [ n |-> NTot(g), free |-> free,
       b0 |-> [a \in 1..nf |-> QCanon(QSumF([n \in 1..E |-> BContrib(g, g.edges[n], packs[n], free[a], packs[n].erat)], E))],
       atoms |-> [k \in 1..Len(atomEdges) |-> packs[atomEdges[k]].err[AtomSlot(packs[atomEdges[k]].err)].ang],
       B1 |-> [k \in 1..Len(atomEdges) |-> LET n == atomEdges[k] IN
                 [a \in 1..nf |-> QCanon(BContrib(g, g.edges[n], packs[n], free[a], Unit(Len(packs[n].err), AtomSlot(packs[n].err))))]],
       chi2 |-> [n \in 1..E |-> Chi2Form(packs[n].err, g.edges[n].W)],
       errs |-> [n \in 1..E |-> EOut(packs[n].err)],
       ws |-> [n \in 1..E |-> EdgeW(g, g.edges[n])] ]

\* ---------- representation changes of the same physical graph (theorem T6) ----------
\* vperm: new position p holds old vertex vperm[p];  eperm: new position q holds old edge eperm[q]
InvPerm(perm) == [v \in 1..Len(perm) |-> CHOOSE p \in 1..Len(perm) : perm[p] = v]
Permuted(g, vperm, eperm) ==
  LET inv == InvPerm(vperm) IN
  [g EXCEPT !.verts = [p \in 1..Len(g.verts) |-> [g.verts[vperm[p]] EXCEPT !.fixed = IsFixed(g, vperm[p])]],
            !.fixFirst = FALSE,                                       \* the same vertices stay fixed
            !.edges = [q \in 1..Len(g.edges) |-> [g.edges[eperm[q]] EXCEPT !.vs = [j \in 1..Len(g.edges[eperm[q]].vs) |-> inv[g.edges[eperm[q]].vs[j]]]]]]
\* index of global coordinate r (of the permuted graph) in its list of free coordinates
PosOf(s, x) == CHOOSE k \in 1..Len(s) : s[k] = x
\* H and b of the permuted graph are H and b of the original graph with coordinates renamed; chi^2 per edge is permuted
PermEquivariant(g, vperm, eperm, N1, N2) ==
  LET g2 == Permuted(g, vperm, eperm)  inv == InvPerm(vperm)
      \* global coordinate in g2 of the coordinate r of g
      Map(r) == LET v == VertexOf(g, r) IN GOff(g2, inv[v]) + (r - GOff(g, v))
      nf == Len(N1.free)
  IN /\ Len(N2.free) = nf
     /\ \A a \in 1..nf : \A b \in 1..nf :
          N1.H[a][b] = N2.H[PosOf(N2.free, Map(N1.free[a]))][PosOf(N2.free, Map(N1.free[b]))]
     /\ \A a \in 1..nf : N1.b0[a] = N2.b0[PosOf(N2.free, Map(N1.free[a]))]
     /\ \A q \in 1..Len(g.edges) : N2.chi2[q] = N1.chi2[eperm[q]]

\* ---------- change of world frame ----------
\* T: [k, t, r] lattice data of a rigid motion of the graph's pose kind (a translation for R^n graphs); every vertex is left-composed with T
\* (a point vertex of an SE(n) graph is acted upon).
Moved(g, T) ==
  LET Tp == Lift(T.k, T.t, T.r) IN
  [g EXCEPT !.verts = [j \in 1..Len(g.verts) |->
      LET v == g.verts[j]  p == VPose(v)
          q == IF v.k = T.k THEN Comp(Tp, p) ELSE [k |-> v.k, t |-> Act(Tp, p.t), r |-> <<>>]
      IN [k |-> v.k, fixed |-> v.fixed, tq |-> VOut(q.t), rq |-> VOut(q.r)]]]
\* The tangent coordinates of a pose vertex are body-frame (boxplus is right multiplication): invariant under T.  A point vertex is updated
\* additively in world coordinates: its tangent coordinates rotate with T.  P(g,T) is that block-diagonal change of coordinates (free part).
FrameP(g, T) ==
  LET free == FreeIdx(g)  nf == Len(free)  R == RotMat(Lift(T.k, T.t, T.r)) IN
  [a \in 1..nf |-> [b \in 1..nf |->
     LET va == VertexOf(g, free[a])  vb == VertexOf(g, free[b]) IN
     IF va # vb THEN QI(0)
     ELSE IF IsPoint(g.verts[va].k) /\ ~IsPoint(T.k) THEN R[free[a] - GOff(g, va)][free[b] - GOff(g, va)].v
     ELSE IF a = b THEN QI(1) ELSE QI(0)]]
QMatMul(A, Bm) == LET n == Len(A) IN [r \in 1..n |-> [c \in 1..n |-> QCanon(QSumF([l \in 1..n |-> QMul(A[r][l], Bm[l][c])], n))]]
QMatVec(A, x) == LET n == Len(A) IN [r \in 1..n |-> QCanon(QSumF([l \in 1..n |-> QMul(A[r][l], x[l])], n))]
QTranspose(A) == LET n == Len(A) IN [r \in 1..n |-> [c \in 1..n |-> A[c][r]]]
=========================================================================
