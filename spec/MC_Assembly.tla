---------------------------- MODULE MC_Assembly ----------------------------
(* Evaluation of the exact (reduced) normal equations on lattice graphs read from a file. *)
EXTENDS Assembly, Json
CaseSeq == ndJsonDeserialize("cases.ndjson")
VARIABLES phase, i, obs
vars == <<phase, i, obs>>
Init == phase = 0 /\ i \in 1..Len(CaseSeq) /\ obs = <<>>
Next == phase = 0 /\ phase' = 1 /\ i' = i /\ obs' = Normal(CaseSeq[i])
Spec == Init /\ [][Next]_vars
\* H is symmetric (design-level sanity of the accumulation)
Symmetric == phase = 1 => \A a \in 1..Len(obs.H) : \A b \in 1..Len(obs.H) : obs.H[a][b] = obs.H[b][a]
=============================================================================
