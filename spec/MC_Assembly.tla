---------------------------- MODULE MC_Assembly ----------------------------
(* Evaluation of the exact (reduced) normal equations on lattice graphs read from a file. *)
EXTENDS Assembly, Json
CaseSeq == ndJsonDeserialize("cases.ndjson")
VARIABLES phase, i, obs
vars == <<phase, i, obs>>
Init == phase = 0 /\ i \in 1..Len(CaseSeq) /\ obs = <<>>
EvalCase(c) == IF "T" \in DOMAIN c
               THEN LET mg == Moved(c, c.T) IN [base |-> Normal(c), moved |-> Normal(mg), mverts |-> mg.verts, P |-> FrameP(c, c.T)]
               ELSE IF "gradOnly" \in DOMAIN c THEN GradOnly(c)
               ELSE IF "vperm" \in DOMAIN c
               THEN LET n1 == Normal(c)  n2 == Normal(Permuted(c, c.vperm, c.eperm)) IN
                    [n1 EXCEPT !.conv = IF PermEquivariant(c, c.vperm, c.eperm, n1, n2) THEN "perm-ok" ELSE "perm-BAD"]
               ELSE Normal(c)
Next == phase = 0 /\ phase' = 1 /\ i' = i /\ obs' = EvalCase(CaseSeq[i])
Spec == Init /\ [][Next]_vars
\* H is symmetric (design-level sanity of the accumulation)
Symmetric == phase = 1 /\ "H" \in DOMAIN obs => \A a \in 1..Len(obs.H) : \A b \in 1..Len(obs.H) : obs.H[a][b] = obs.H[b][a]
\* T6: the normal equations of a graph with permuted vertex and edge lists are those of the original graph with coordinates renamed
PermutationEquivariant == phase = 1 /\ "conv" \in DOMAIN obs => obs.conv # "perm-BAD"
\* T5: errors, chi^2, gradient and Hessian of the left-composed graph are those of the original graph
FrameInvariant == phase = 1 /\ "moved" \in DOMAIN obs =>
   LET c == CaseSeq[i]  P == FrameP(c, c.T) IN
   /\ obs.base.atoms = obs.moved.atoms /\ obs.base.chi2 = obs.moved.chi2 /\ obs.base.errs = obs.moved.errs
   /\ obs.moved.H = QMatMul(QMatMul(P, obs.base.H), QTranspose(P))
   /\ obs.moved.b0 = QMatVec(P, obs.base.b0)
   /\ \A k \in 1..Len(obs.base.B1) : obs.moved.B1[k] = QMatVec(P, obs.base.B1[k])
=============================================================================
